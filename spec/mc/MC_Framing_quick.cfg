CONSTANT N = 5
INIT Init
NEXT Next
INVARIANT Inv_Delivered
INVARIANT Inv_ImplIsRef
INVARIANT Complete
CHECK_DEADLOCK FALSE
