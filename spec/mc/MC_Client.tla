------------------------------ MODULE MC_Client ------------------------------
(* U1: bounded model checking of the client specification.  The scenario      *)
(* (which stimuli are interleaved, with which arguments) is chosen by the      *)
(* constant Scn; the properties are stated directly on the specification's     *)
(* variables and on the effects of each step.                                  *)
EXTENDS MqttClient

CONSTANTS Scn,        \* "handshake" | "publisher" | "session" | "subscriber" | "keepalive" | "twoaddr"
          MaxD,       \* Deferreds handed out at most
          MaxGen,     \* connections per address at most
          MaxN,       \* interval() calls per request at most (bounds retries)
          Windows     \* window sizes that may be set

VI(n) == [ty |-> "int", v |-> n]
VS(s) == [ty |-> "str", v |-> s]
NoneV == [ty |-> "none"]
TopicT == <<116>>

CArgs(clean, ka, ver) == [cid |-> VS(<<99>>), ka |-> VI(ka), clean |-> clean, ver |-> ver, wtopic |-> NoneV, wmsg |-> NoneV,
                          wqos |-> VI(0), wretain |-> 0, uname |-> NoneV, pwd |-> NoneV]
ConnSet ==
  CASE Scn = "handshake"  -> {CArgs(1, 0, 4), [CArgs(1, 0, 4) EXCEPT !.ka = VI(70000)], [CArgs(1, 0, 4) EXCEPT !.ka = NoneV]}
    [] Scn = "keepalive"  -> {CArgs(1, 2, 4), CArgs(1, 0, 4)}
    [] Scn = "session"    -> {CArgs(1, 0, 4), CArgs(0, 0, 4)}
    [] Scn = "subscriber" -> {CArgs(0, 0, 3), CArgs(1, 0, 4)}
    [] OTHER              -> {CArgs(1, 0, 4)}
PubSet ==
  CASE Scn \in {"publisher", "session", "twoaddr"} -> {[topic |-> VS(TopicT), payload |-> [ty |-> "bytes", v |-> <<>>], qos |-> VI(q), retain |-> 0] : q \in 0..2}
    [] Scn = "handshake" -> {[topic |-> VS(TopicT), payload |-> [ty |-> "bytes", v |-> <<>>], qos |-> VI(1), retain |-> 0],
                             [topic |-> VS(TopicT), payload |-> [ty |-> "bytes", v |-> <<>>], qos |-> VI(3), retain |-> 0],
                             [topic |-> VS(TopicT), payload |-> [ty |-> "int"], qos |-> VI(1), retain |-> 0]}
    [] OTHER -> {}
SubSet ==
  CASE Scn \in {"subscriber"} -> {<<VS(TopicT), VI(1)>>, <<[ty |-> "list", items |-> <<[ty |-> "pair", t |-> TopicT, q |-> 2]>>], VI(0)>>}
    [] Scn = "handshake" -> {<<VS(TopicT), VI(1)>>, <<VS(TopicT), VI(3)>>, <<NoneV, VI(0)>>}
    [] OTHER -> {}
UnsubSet ==
  CASE Scn \in {"subscriber"} -> {VS(TopicT)}
    [] Scn = "handshake" -> {VS(TopicT), NoneV}
    [] OTHER -> {}
Ids == 1..(IF MaxId > 6 THEN 6 ELSE MaxId)     \* identifiers the modelled broker may acknowledge
Ack(t, i) == [t |-> t, id |-> i]
InPub(q, i, dup) == [t |-> "PUBLISH", dup |-> dup, qos |-> q, retain |-> 0, topic |-> TopicT, id |-> IF q = 0 THEN -1 ELSE i, payload |-> <<>>]
InSet ==
  CASE Scn = "handshake"  -> {[t |-> "CONNACK", session |-> 0, code |-> c] : c \in {0, 5, 6}} \cup {[t |-> "malformed"], [t |-> "PINGRESP"], Ack("PUBACK", 1),
                              Ack("SUBACK", 1) @@ [granted |-> <<<<0, 0>>>>], InPub(1, 1, 0), [t |-> "PUBREL", id |-> 1, dup |-> 0]}
    [] Scn \in {"publisher", "session", "twoaddr"} ->
         {[t |-> "CONNACK", session |-> 0, code |-> 0]} \cup {Ack(t, i) : t \in {"PUBACK", "PUBREC", "PUBCOMP"}, i \in Ids}
    [] Scn = "subscriber" ->
         {[t |-> "CONNACK", session |-> 1, code |-> 0]} \cup {Ack("UNSUBACK", i) : i \in Ids}
         \cup {[t |-> "SUBACK", id |-> i, granted |-> <<<<1, 0>>>>] : i \in Ids}
         \cup {InPub(q, 1, d) : q \in 0..2, d \in {0, 1}} \cup {[t |-> "PUBREL", id |-> i, dup |-> 0] : i \in 1..2}
    [] Scn = "keepalive" -> {[t |-> "CONNACK", session |-> 0, code |-> 0], [t |-> "PINGRESP"]}
Handlers == IF Scn \in {"subscriber"} THEN {"onDisconnection", "onPublish"} ELSE IF Scn \in {"handshake", "keepalive"} THEN {"onDisconnection"} ELSE {}
UseDisconnect == Scn \in {"handshake", "publisher", "keepalive"}

Next ==
  \E a \in Addr :
    \/ Build(a)
    \/ \E w \in Windows : Set(a, "window", VI(w), NoneV)
    \/ \E h \in Handlers : conn[a].ps = "idle" /\ Set(a, h, VI(1), NoneV)
    \/ \E c \in ConnSet : conn[a].tr = "open" /\ Connect(a, c)       \* A1: connect() is not called on a protocol whose transport is gone
    \/ (UseDisconnect /\ Disconnect(a))
    \* fewer unfinished requests than identifiers (65535 in the code): otherwise reuse is unavoidable
    \/ \E x \in PubSet : Cardinality(InUse) < MaxId /\ Publish(a, x)
    \/ \E s \in SubSet : Cardinality(InUse) < MaxId /\ Subscribe(a, s[1], s[2])
    \/ \E u \in UnsubSet : Cardinality(InUse) < MaxId /\ Unsubscribe(a, u)
    \/ \E p \in InSet : conn[a].tr \in {"open", "closing"} /\ Deliver(a, p)     \* A2
    \/ Lost(a, "ConnectionDone")
    \/ \E tm \in timers : tm.a = a /\ FireTimer(tm)
Spec == Init /\ [][Next]_vars
\* for behaviour generation (U3): steps that are refused for the state or ignored are left out, so that random walks of
\* the specification spend their length on transitions that do something (the refused / ignored ones are covered
\* exhaustively by the enumerating drivers)
Useful == /\ ~(stim'.op = "recv" /\ fx' = <<>>)
          /\ ~(\E i \in 1..Len(fx') : fx'[i].k = "fire" /\ fx'[i].ok = 0 /\ fx'[i].exc = "MQTTStateError" /\ stim'.op # "recv")
          /\ fx' # <<Raise("MQTTStateError")>>
          /\ ~(stim'.op = "set" /\ conn' = conn)
SimSpec == Init /\ [][Next /\ Useful]_vars

AllReqs(a) == SeqToSet(sess[a].queue) \cup SeqToSet(sess[a].pub) \cup SeqToSet(sess[a].rel) \cup SeqToSet(sess[a].sub) \cup SeqToSet(sess[a].unsub)
Bound == /\ nd <= MaxD
         /\ \A a \in Addr : conn[a].g <= MaxGen
         /\ \A a \in Addr : \A r \in SeqToSet(sess[a].pub) \cup SeqToSet(sess[a].rel) \cup SeqToSet(sess[a].sub) \cup SeqToSet(sess[a].unsub) : r.n <= MaxN
         /\ (Scn = "keepalive" => now <= 1024 * 2 * 4)
View == sv

-----------------------------------------------------------------------------
(* properties, stated on the specification *)
Writes(f) == SelectSeq(f, LAMBDA e : e.k = "write")
Fires(f)  == SelectSeq(f, LAMBDA e : e.k = "fire")
Up(a) == conn[a].ps = "connected" /\ conn[a].tr = "open"

\* C17: identifiers of unfinished requests of the whole factory are pairwise distinct and in 1..MaxId
Unfinished == UNION {{<<a, r.d, r.id>> : r \in {x \in AllReqs(a) : "qos" \notin DOMAIN x \/ x.qos > 0}} : a \in Addr}
Inv_C17 == /\ \A x, y \in Unfinished : x[3] = y[3] => x = y
           /\ \A x \in Unfinished : x[3] \in 1..MaxId
\* C10: window bound at every first transmission (action), nothing stranded (state)
Inv_C10_stranded == \A a \in Addr : (Up(a) /\ sess[a].queue # <<>>) => (sess[a].pub # <<>> \/ sess[a].rel # <<>>)
Act_C10_window == [][\A a \in Addr :
                       (\E i \in 1..Len(fx') : fx'[i].k = "write" /\ fx'[i].a = a /\ fx'[i].p.t = "PUBLISH" /\ fx'[i].p.qos > 0 /\ fx'[i].p.dup = 0)
                         => Len(sess'[a].pub) <= conn'[a].window]_vars
\* C13: exactly one retry timer per packet awaiting acknowledgement on a live connection, none otherwise
Inv_C13 == \A a \in Addr :
             LET k == conn[a]  s == sess[a] IN
             /\ \A t \in timers : (t.a = a /\ t.kind \in {"pub", "rel", "sub", "unsub"}) =>
                   /\ t.g = k.g /\ k.tr # "lost" /\ k.ps # "disconnecting"
                   /\ \E r \in SeqToSet(CASE t.kind = "pub" -> s.pub [] t.kind = "rel" -> s.rel [] t.kind = "sub" -> s.sub [] OTHER -> s.unsub) : r.id = t.id /\ r.live
             /\ \A kind \in {"pub", "rel", "sub", "unsub"} :
                  \A r \in SeqToSet(CASE kind = "pub" -> s.pub [] kind = "rel" -> s.rel [] kind = "sub" -> s.sub [] OTHER -> s.unsub) :
                     r.live => Cardinality(TimersOf(kind, a, k.g, r.id)) = 1
             /\ \A t \in timers : (t.a = a /\ t.kind \in {"ping", "pingdl"}) => (t.g = k.g /\ k.ka # 0 /\ k.tr # "lost")
             \* connected, keepalive off, nothing outstanding: only notifications (and the CONNACK timeout of an earlier
             \* connection that was lost while connecting, which the statement tolerates until it has run)
             /\ (Up(a) /\ k.ka = 0 /\ AllReqs(a) = {}) => \A t \in timers : t.a = a => (t.kind = "disc" \/ (t.kind = "connack" /\ t.g < k.g))
\* C11 / C12: what a loss does to the pending requests
Act_C11 == [][\A a \in Addr : (stim'.op = "lost" /\ stim'.a = a /\ conn[a].clean = 1) =>
                 /\ sess'[a].queue = <<>> /\ sess'[a].pub = <<>> /\ sess'[a].rel = <<>> /\ sess'[a].sub = <<>> /\ sess'[a].unsub = <<>>
                 /\ \A r \in {x \in AllReqs(a) : "qos" \notin DOMAIN x \/ x.qos > 0} :
                      Cardinality({i \in 1..Len(fx') : fx'[i].k = "fire" /\ fx'[i].d = r.d /\ fx'[i].ok = 0 /\ fx'[i].exc = stim'.reason}) = 1]_vars
Act_C12_loss == [][\A a \in Addr : (stim'.op = "lost" /\ stim'.a = a /\ conn[a].clean = 0) => Fires(fx') = <<>> /\ AllReqs(a) = {r \in AllReqs(a) : TRUE}]_vars
\* C12: at the CONNACK of a persistent connection every inherited in-flight PUBLISH is written once with DUP, every inherited
\* PUBREL once, nothing for what was requested on the new connection, and held-back messages are released while the window has room
Act_C12_resume ==
  [][\A a \in Addr :
       (stim'.op = "recv" /\ stim'.a = a /\ stim'.p.t = "CONNACK" /\ stim'.p.code = 0 /\ conn[a].ps = "connecting" /\ conn[a].clean = 0) =>
         LET s == sess[a]  w == Writes(fx') IN
         /\ \A r \in SeqToSet(s.pub) : Cardinality({i \in 1..Len(w) : w[i].p.t = "PUBLISH" /\ w[i].p.id = r.id}) = (IF r.live THEN 0 ELSE 1)
         /\ \A r \in SeqToSet(s.pub) : ~r.live => \E i \in 1..Len(w) : w[i].p = PktPublish(r, 1)
         /\ \A r \in SeqToSet(s.rel) : Cardinality({i \in 1..Len(w) : w[i].p.t = "PUBREL" /\ w[i].p.id = r.id}) = (IF r.live THEN 0 ELSE 1)
         /\ \A r \in SeqToSet(s.rel) : ~\E i \in 1..Len(w) : w[i].p.t = "PUBLISH" /\ w[i].p.id = r.id
         /\ (sess'[a].queue = <<>> \/ Len(sess'[a].pub) >= conn'[a].window)
         /\ Fires(fx') = <<FireOk(conn[a].cd, VBool(stim'.p.session))>>]_vars
\* C12 (last sentence): the CONNACK step neither fails nor re-sends what was requested on the new connection itself
Act_C12_fresh ==
  [][\A a \in Addr :
       (stim'.op = "recv" /\ stim'.a = a /\ stim'.p.t = "CONNACK" /\ stim'.p.code = 0 /\ conn[a].ps = "connecting") =>
         LET s == sess[a]  fresh == {r \in SeqToSet(s.pub) \cup SeqToSet(s.rel) \cup SeqToSet(s.sub) \cup SeqToSet(s.unsub) : r.live} IN
         \A r \in fresh : /\ ~\E i \in 1..Len(fx') : fx'[i].k = "fire" /\ fx'[i].d = r.d
                          /\ ~\E i \in 1..Len(fx') : fx'[i].k = "write" /\ "id" \in DOMAIN fx'[i].p /\ fx'[i].p.id = r.id
                                                       /\ fx'[i].p.t \in {"PUBLISH", "PUBREL", "SUBSCRIBE", "UNSUBSCRIBE"}
                          /\ r.d \in {x.d : x \in AllReqs(a)}']_vars
\* C07 (last sentence): a pending SUBSCRIBE / UNSUBSCRIBE is never left without a running retry timer on a live connection
Inv_C07_live == \A a \in Addr : Up(a) => \A r \in SeqToSet(sess[a].sub) \cup SeqToSet(sess[a].unsub) : r.live

\* C09: once the PUBREL of an identifier has been written its PUBLISH is never written again; PUBREL only after PUBREC
Act_C09 == [][\A i \in 1..Len(fx') :
                 /\ (fx'[i].k = "write" /\ fx'[i].p.t = "PUBLISH" /\ fx'[i].p.qos = 2) => ~Has(sess[fx'[i].a].rel, fx'[i].p.id)
                 /\ (fx'[i].k = "write" /\ fx'[i].p.t = "PUBREL") =>
                       \/ Has(sess[fx'[i].a].rel, fx'[i].p.id)
                       \/ (stim'.op = "recv" /\ stim'.p.t = "PUBREC" /\ stim'.p.id = fx'[i].p.id /\ Has(sess[fx'[i].a].pub, fx'[i].p.id))]_vars
\* C05: a publish Deferred succeeds only in the step that receives the acknowledgement its QoS level requires
Act_C05 == [][\A i \in 1..Len(fx') :
                 (fx'[i].k = "fire" /\ fx'[i].ok = 1 /\ stim'.op # "publish" /\ fx'[i].val.ty = "int") =>
                    /\ stim'.op = "recv" /\ stim'.p.t \in {"PUBACK", "PUBCOMP", "UNSUBACK"} /\ fx'[i].val.v = stim'.p.id
                    /\ (stim'.p.t = "PUBCOMP" => Has(sess[stim'.a].rel, stim'.p.id))]_vars
\* C14: an operation outside its states and profiles is refused with MQTTStateError and has no other effect
Allowed(op, ps) == CASE op = "connect" -> ps = "idle" [] op = "publish" -> PubCapable /\ ps \in {"connecting", "connected"}
                     [] op \in {"subscribe", "unsubscribe"} -> SubCapable /\ ps = "connected" [] op = "disconnect" -> ps = "connected" [] OTHER -> TRUE
Act_C14 == [][(stim'.op \in {"connect", "publish", "subscribe", "unsubscribe", "disconnect"} /\ ~Allowed(stim'.op, conn[stim'.a].ps)) =>
                 /\ (IF stim'.op = "disconnect" THEN fx' = <<Raise("MQTTStateError")>> ELSE fx' = <<FireErr(nd', "MQTTStateError"), Ret(nd', -1)>>)
                 /\ sess' = sess /\ conn' = conn /\ timers' = timers]_vars
Act_C14_pkt == [][(stim'.op = "recv" /\ stim'.p.t \in BrokerTypes /\ ~Handles(stim'.p.t, conn[stim'.a].ps)) => (fx' = <<>> /\ sv' = sv)]_vars
\* C18: nothing is written before connect(), after disconnect() or after the loss; CONNECT only by connect(), DISCONNECT only by disconnect()
Act_C18 == [][\A i \in 1..Len(fx') : fx'[i].k = "write" =>
                 LET a == fx'[i].a  k == conn[a] IN
                 /\ fx'[i].g = k.g /\ k.tr \notin {"lost", "closing"} /\ k.ps # "disconnecting"     \* closing = DISCONNECT has been written
                 /\ (fx'[i].p.t = "CONNECT" <=> (stim'.op = "connect" /\ i = 1))
                 /\ (fx'[i].p.t = "DISCONNECT" => stim'.op = "disconnect" /\ fx'[i + 1] = Close(a, k.g, "lose"))
                 /\ ClientPacket(fx'[i].p)]_vars
\* C20: a refused call changes nothing but the Deferred counter (and the identifier counter, which is not protocol state)
Act_C20 == [][(\E i \in 1..Len(fx') : (fx'[i].k = "fire" /\ fx'[i].ok = 0 /\ fx'[i].exc \in {"ValueError", "TypeError"} /\ stim'.op \in {"connect", "publish", "subscribe", "unsubscribe"})
                                       \/ (fx'[i].k = "raise" /\ fx'[i].exc \in {"ValueError", "TypeError"}))
                 => (sess' = sess /\ conn' = conn /\ timers' = timers /\ Writes(fx') = <<>>)]_vars
\* C04: the connect Deferred fires in exactly one of three ways, never twice; after a loss the protocol is idle
Act_C04 == [][/\ \A a \in Addr : (stim'.op = "lost" /\ stim'.a = a) =>
                     /\ conn'[a].ps = "idle"
                     /\ (conn[a].hDisc = 1 <=> \E t \in timers' \ timers : t.kind = "disc" /\ t.a = a /\ t.g = conn[a].g /\ t.x = stim'.reason)
              /\ \A i \in 1..Len(fx') : (fx'[i].k = "fire" /\ \E a \in Addr : conn[a].cd = fx'[i].d /\ fx'[i].d # 0) =>
                     \/ (stim'.op = "recv" /\ stim'.p.t = "CONNACK" /\ (fx'[i].ok = 1 <=> stim'.p.code = 0) /\ conn'[stim'.a].cd = 0)
                     \/ (stim'.op = "fire" /\ stim'.tm.kind = "connack" /\ fx'[i] = FireErr(stim'.tm.id, "MQTTTimeoutError") /\ fx'[i + 1].k = "close")]_vars
\* C15: while connected with keepalive k the next PINGREQ is never more than k seconds away; with k = 0 there is no keepalive timer
Inv_C15 == \A a \in Addr : LET k == conn[a] IN
             /\ (k.ps = "connected" /\ k.ka # 0 /\ k.tr = "open") => \E t \in timers : t.kind = "ping" /\ t.a = a /\ t.g = k.g /\ t.at <= now + 1024 * k.ka
             /\ k.ka = 0 => ~\E t \in timers : t.kind \in {"ping", "pingdl"} /\ t.a = a /\ t.g = k.g
\* C06: a held inbound QoS 2 message is delivered exactly when its PUBREL arrives; every PUBLISH / PUBREL is answered
Act_C06 == [][(stim'.op = "recv" /\ Handles(stim'.p.t, conn[stim'.a].ps) /\ stim'.p.t \in {"PUBLISH", "PUBREL"}) =>
                 LET a == stim'.a  p == stim'.p  w == Writes(fx')  cbs == SelectSeq(fx', LAMBDA e : e.k = "cb") IN
                 CASE p.t = "PUBLISH" /\ p.qos = 0 -> w = <<>> /\ Len(cbs) = conn[a].hPub
                   [] p.t = "PUBLISH" /\ p.qos = 1 -> Len(w) = 1 /\ w[1].p = PktAck("PUBACK", p.id) /\ Len(cbs) = conn[a].hPub
                   [] p.t = "PUBLISH" /\ p.qos = 2 -> Len(w) = 1 /\ w[1].p = PktAck("PUBREC", p.id) /\ cbs = <<>> /\ Has(sess'[a].rx, p.id)
                   [] p.t = "PUBREL" -> /\ Len(w) = 1 /\ w[1].p = PktAck("PUBCOMP", p.id) /\ ~Has(sess'[a].rx, p.id)
                                        /\ Len(cbs) = (IF Has(sess[a].rx, p.id) THEN conn[a].hPub ELSE 0)]_vars
\* C07: window enforced, acknowledgements matched by identifier
Act_C07 == [][(stim'.op \in {"subscribe", "unsubscribe"} /\ SubCapable /\ conn[stim'.a].ps = "connected") =>
                 LET a == stim'.a  w == IF stim'.op = "subscribe" THEN sess[a].sub ELSE sess[a].unsub IN
                 (Len(w) >= conn[a].window) <=> (\E i \in 1..Len(fx') : fx'[i].k = "fire" /\ fx'[i].ok = 0 /\ fx'[i].exc = "MQTTWindowError")]_vars
\* C19: a step on one address leaves everything of every other address unchanged and its effects name only that address
StepAddr == IF stim'.op = "fire" THEN stim'.tm.a ELSE IF "a" \in DOMAIN stim' THEN stim'.a ELSE ""
Act_C19 == [][\A a \in Addr : (StepAddr # "" /\ StepAddr # a) =>
                 /\ sess'[a] = sess[a] /\ conn'[a] = conn[a]
                 /\ {t \in timers' : t.a = a} = {t \in timers : t.a = a}
                 /\ \A i \in 1..Len(fx') : "a" \in DOMAIN fx'[i] => fx'[i].a # a]_vars
=============================================================================
