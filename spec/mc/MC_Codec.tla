------------------------------ MODULE MC_Codec ------------------------------
(* U1 for C01 / C02: the reference codec checked against itself on a bounded *)
(* but complete family of packets: Decode is the inverse of Encode, Decode   *)
(* accepts exactly Encode's image, mutations of reserved bits are rejected.  *)
EXTENDS MqttCodec

CONSTANT Thorough   \* BOOLEAN

Cps   == {65, 233, 8364, 128512}                  \* 1-, 2-, 3-, 4-byte code points
Str2  == UNION {[1..n -> Cps] : n \in 0..2}       \* all texts of length 0..2 (21)
StrS  == {<<>>, <<65>>, <<233, 8364>>, <<128512>>}
Bin2  == UNION {[1..n -> {0, 127, 128, 255}] : n \in 0..2}
BinS  == {<<>>, <<0>>, <<255, 128>>}
Ids   == {0, 1, 255, 256, 65535}
IdsS  == {1, 65535}
Bit   == {0, 1}

MainStr == IF Thorough THEN Str2 ELSE StrS
MainIds == IF Thorough THEN Ids ELSE IdsS

Connects(v, c, k) ==
  { [t |-> "CONNECT", ver |-> v, clean |-> c, ka |-> k, cid |-> cid,
     will |-> w[1], wtopic |-> w[2], wmsg |-> w[3], wqos |-> w[4], wretain |-> w[5],
     user |-> u[1], uname |-> u[2], pass |-> u[3], pwd |-> u[4]] :
     cid \in MainStr,
     w \in {<<0, <<>>, <<>>, 0, 0>>} \cup {<<1, a, b, q, r>> : a \in StrS, b \in StrS, q \in 0..2, r \in Bit},
     u \in {<<0, <<>>, 0, <<>>>>} \cup {<<1, a, 0, <<>>>> : a \in StrS} \cup {<<1, a, 1, pw>> : a \in StrS, pw \in BinS} }
Publishes(d, q, r) ==
  IF q > 0 THEN { [t |-> "PUBLISH", dup |-> d, qos |-> q, retain |-> r, topic |-> tp, id |-> j, payload |-> pl] :
                   tp \in MainStr, j \in Ids, pl \in Bin2 }
  ELSE { [t |-> "PUBLISH", dup |-> 0, qos |-> 0, retain |-> r, topic |-> tp, id |-> -1, payload |-> pl] :
          tp \in MainStr, pl \in Bin2 }
Acks == { [t |-> ty, id |-> j] : ty \in {"PUBACK", "PUBREC", "PUBCOMP", "UNSUBACK"}, j \in Ids }
        \cup { [t |-> "PUBREL", id |-> j, dup |-> d] : j \in Ids, d \in Bit }
TQ == StrS \X (0..2)
Subscribes(j, d)   == { [t |-> "SUBSCRIBE", id |-> j, dup |-> d, topics |-> ts] :
                   ts \in {<<a>> : a \in TQ} \cup {<<a, b>> : a \in TQ, b \in TQ} }
Unsubscribes(j, d) == { [t |-> "UNSUBSCRIBE", id |-> j, dup |-> d, topics |-> ts] :
                   ts \in {<<a>> : a \in Str2} \cup {<<a, b>> : a \in StrS, b \in StrS} }
G == {<<0, 0>>, <<1, 0>>, <<2, 0>>, <<0, 1>>}
Subacks(j) == { [t |-> "SUBACK", id |-> j, granted |-> g] : g \in UNION {[1..n -> G] : n \in 1..3} }
Others  == { [t |-> "CONNACK", session |-> s, code |-> c] : s \in Bit, c \in 0..255 }
           \cup { [t |-> x] : x \in {"PINGREQ", "PINGRESP", "DISCONNECT"} }

\* the family is cut into classes; one state per class, expanded in parallel by TLC's workers
Classes == {<<"CONNECT", v, c, k>> : v \in {3, 4}, c \in Bit, k \in MainIds}
           \cup {<<"PUBLISH", d, q, r>> : d \in Bit, q \in 0..2, r \in Bit}
           \cup {<<"SUBSCRIBE", j, d, 0>> : j \in MainIds, d \in Bit}
           \cup {<<"UNSUBSCRIBE", j, d, 0>> : j \in MainIds, d \in Bit}
           \cup {<<"SUBACK", j, 0, 0>> : j \in Ids}
           \cup {<<"ACKS", 0, 0, 0>>, <<"OTHERS", 0, 0, 0>>}
PacketsOf(c) == CASE c[1] = "CONNECT" -> Connects(c[2], c[3], c[4])
                  [] c[1] = "PUBLISH" -> IF c[3] = 0 /\ c[2] = 1 THEN {} ELSE Publishes(c[2], c[3], c[4])
                  [] c[1] = "SUBSCRIBE" -> Subscribes(c[2], c[3])
                  [] c[1] = "UNSUBSCRIBE" -> Unsubscribes(c[2], c[3])
                  [] c[1] = "SUBACK" -> Subacks(c[2])
                  [] c[1] = "ACKS" -> Acks
                  [] c[1] = "OTHERS" -> Others

VARIABLES cls, p
Init == cls \in Classes /\ p = [t |-> "none"]
Next == p.t = "none" /\ p' \in PacketsOf(cls) /\ UNCHANGED cls

VerOf(q) == IF q.t = "CONNECT" THEN q.ver ELSE IF "dup" \in DOMAIN q /\ q.t # "PUBLISH" /\ q.dup = 1 THEN 3 ELSE 4

RoundTrip ==
  LET b == Encode(p)  v == VerOf(p) IN
  /\ Representable(p)
  /\ DecodeStrict(b, v) = p
  /\ DecodeLenient(b, v) = p
  /\ b[1] = FirstOf(p)
  /\ LET rl == DecLen(b, 2) IN rl.ok /\ rl.val = Len(b) - rl.next + 1 /\ rl.val = Len(BodyOf(p))
\* under 3.1.1 a DUP bit on PUBREL / SUBSCRIBE / UNSUBSCRIBE is a reserved-bit violation
DupOnlyIn31 ==
  (p.t \in {"PUBREL", "SUBSCRIBE", "UNSUBSCRIBE"} /\ p.dup = 1) => IsBad(DecodeStrict(Encode(p), 4))
\* every other value of the flag nibble of a non-PUBLISH packet is rejected by the strict decoder,
\* tolerated by the lenient one (A7)
ReservedBits ==
  p.t # "PUBLISH" =>
    LET b == Encode(p) IN
    \A fl \in 0..15 :
      LET b2 == [b EXCEPT ![1] = (b[1] \div 16) * 16 + fl] IN
      (b2 # b /\ ~(p.t \in {"PUBREL", "SUBSCRIBE", "UNSUBSCRIBE"} /\ fl \in {2, 10}))
         => /\ IsBad(DecodeStrict(b2, 3)) /\ IsBad(DecodeStrict(b2, 4))
            /\ (p.t # "CONNECT" => ~IsBad(DecodeLenient(b2, 4)))
\* truncation and extension by one byte never decode strictly
LengthExact ==
  LET b == Encode(p) IN
  /\ IsBad(DecodeStrict(Append(b, 0), 3)) /\ IsBad(DecodeStrict(Append(b, 0), 4))
  /\ IsBad(DecodeStrict(SubSeq(b, 1, Len(b) - 1), 3)) /\ IsBad(DecodeStrict(SubSeq(b, 1, Len(b) - 1), 4))
Qos3Rejected ==
  \* both QoS bits set: refused by the strict grammar; the lenient decoder (the implementation's) either refuses it too or
  \* passes it on as qos = 3, never as a message of QoS 0, 1 or 2
  p.t = "PUBLISH" => LET b == Encode(p)  b3 == [b EXCEPT ![1] = 48 + 6 + p.retain]  d == DecodeLenient(b3, 4) IN
                     /\ IsBad(DecodeStrict(b3, 4)) /\ IsBad(DecodeStrict(b3, 3))
                     /\ (IsBad(d) \/ (d.t = "PUBLISH" /\ d.qos = 3))
Live == p.t # "none"
Inv_RoundTrip    == Live => RoundTrip
Inv_DupOnlyIn31  == Live => DupOnlyIn31
Inv_ReservedBits == Live => ReservedBits
Inv_LengthExact  == Live => LengthExact
Inv_Qos3Rejected == Live => Qos3Rejected
=============================================================================
