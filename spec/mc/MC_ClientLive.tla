--------------------------- MODULE MC_ClientLive ---------------------------
(* Supplementary liveness instance (not a registered check, see DESIGN 4.6):  *)
(* with a broker that keeps acknowledging what is in flight, a message held    *)
(* back by the send window does not stay in the queue for ever (C10) and every *)
(* in-flight QoS 1/2 publish eventually leaves its window (C05) - or the       *)
(* connection goes away.  Fairness is on the broker only, never on the user.   *)
EXTENDS MC_Client

InFlightAcks(a) == {p \in InSet : \/ (p.t = "PUBACK"  /\ \E r \in SeqToSet(sess[a].pub) : (r.id = p.id /\ r.qos = 1))
                                   \/ (p.t = "PUBREC"  /\ \E r \in SeqToSet(sess[a].pub) : (r.id = p.id /\ r.qos = 2))
                                   \/ (p.t = "PUBCOMP" /\ \E r \in SeqToSet(sess[a].rel) : r.id = p.id)}
BrokerAck(a) == \E p \in InFlightAcks(a) : Up(a) /\ Deliver(a, p)
LiveSpec == Init /\ [][Next]_vars /\ \A a \in Addr : WF_vars(BrokerAck(a))

Live_C10_queue == \A a \in Addr : (Up(a) /\ sess[a].queue # <<>>) ~> (~Up(a) \/ sess[a].queue = <<>>)
Live_C05_window == \A a \in Addr : \A i \in Ids :
                     (Up(a) /\ (Has(sess[a].pub, i) \/ Has(sess[a].rel, i))) ~> (~Up(a) \/ ~(Has(sess[a].pub, i) \/ Has(sess[a].rel, i)))
=============================================================================
