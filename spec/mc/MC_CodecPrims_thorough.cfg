CONSTANT Thorough = TRUE
INIT Init
NEXT Next
INVARIANT JobOK
CHECK_DEADLOCK FALSE
