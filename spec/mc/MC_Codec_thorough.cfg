CONSTANT Thorough = TRUE
INIT Init
NEXT Next
INVARIANT Inv_RoundTrip
INVARIANT Inv_DupOnlyIn31
INVARIANT Inv_ReservedBits
INVARIANT Inv_LengthExact
INVARIANT Inv_Qos3Rejected
CHECK_DEADLOCK FALSE
