----------------------------- MODULE MC_Framing -----------------------------
(* U1 for C03.  (i) the transcription of _accumulatePacket (FrameImpl) equals  *)
(* the declarative reference (Frame) on every byte string up to length N over  *)
(* an alphabet of boundary bytes; (ii) for fixed streams of broker packets     *)
(* with 1-, 2- and 3-byte remaining lengths, delivering the stream in ANY      *)
(* composition of chunks (the action Recv(n): "the next n bytes arrive")       *)
(* delivers exactly the packets wholly inside the bytes received so far.       *)
EXTENDS MqttFraming

CONSTANT N          \* maximal length of the enumerated byte strings

Alphabet == {0, 1, 2, 48, 64, 127, 128, 129, 208, 255}
AlphaSeq == SetToSeq(Alphabet)

\* ---- fixed streams (packets as byte sequences)
Rep(b, n) == [i \in 1..n |-> b]
Pub(n)  == <<48>> \o EncLen(n + 3) \o <<0, 1, 116>> \o Rep(165, n)                  \* PUBLISH qos 0 topic "t", payload n bytes
Streams == << <<32, 2, 0, 0>> \o <<64, 2, 0, 1>> \o <<208, 0>> \o Pub(2) \o <<176, 2, 0, 9>>,
              Pub(124) \o <<208, 0>> \o Pub(125) \o <<80, 2, 0, 7>>,                  \* remaining length 127 then 128
              <<144, 3, 0, 1, 128>> \o Pub(0) \o <<98, 2, 255, 255>> \o <<112, 2, 1, 0>>,
              Pub(16380) \o <<208, 0>> \o Pub(16381) \o <<64, 2, 0, 2>> >>          \* remaining length 16383 then 16384 (3-byte field)
MaxChunk(s) == IF Len(Streams[s]) > 300 THEN 0 ELSE Len(Streams[s])                 \* long streams: cuts only near packet boundaries

VARIABLES mode, s, pos, buf, delivered, str
vars == <<mode, s, pos, buf, delivered, str>>

Init == \/ /\ mode = "stream" /\ s \in 1..Len(Streams) /\ pos = 0 /\ buf = <<>> /\ delivered = 0 /\ str = <<>>
        \/ /\ mode = "enum" /\ s = 0 /\ pos = 0 /\ buf = <<>> /\ delivered = 0
           /\ str \in {<<a, b>> : a \in Alphabet, b \in Alphabet}

\* positions at which a long stream may be cut: a few bytes around every packet boundary and every length field
Boundaries(st) == LET f == Frame(st)
                      ends == [i \in 1..Len(f.pkts) |-> Len(FlattenSeq(SubSeq(f.pkts, 1, i)))] IN
                  UNION {{e - 2, e - 1, e, e + 1, e + 2, e + 3, e + 4, e + 5} : e \in {0} \cup {ends[i] : i \in 1..Len(ends)}}
Recv(n) == /\ mode = "stream" /\ n >= 1 /\ pos + n <= Len(Streams[s])
           /\ (Len(Streams[s]) > 300 => (pos + n) \in Boundaries(Streams[s]) \cup {Len(Streams[s])})
           /\ LET r == FrameImpl(buf \o SubSeq(Streams[s], pos + 1, pos + n)) IN
              /\ buf' = r.rest /\ delivered' = delivered + Len(r.pkts)
              \* the packets delivered by this call are exactly the next ones of the stream, unchanged
              /\ r.pkts = SubSeq(Frame(Streams[s]).pkts, delivered + 1, delivered + Len(r.pkts))
           /\ pos' = pos + n /\ UNCHANGED <<mode, s, str>>
Grow == /\ mode = "enum" /\ Len(str) < N
        /\ \E b \in Alphabet : str' = Append(str, b)
        /\ UNCHANGED <<mode, s, pos, buf, delivered>>
Next == (\E n \in 1..Len(Streams[IF s = 0 THEN 1 ELSE s]) : Recv(n)) \/ Grow

\* (ii) in every state: delivered = the packets wholly inside the bytes received so far; the buffer holds the remainder
Inv_Delivered == mode = "stream" =>
                   LET f == Frame(SubSeq(Streams[s], 1, pos)) IN delivered = Len(f.pkts) /\ buf = f.rest
\* (i) implementation algorithm = reference, also on the string extended by one more packet
\* (strings in which four consecutive bytes have the continuation bit hold a length field of more than 4 bytes at
\* some packet start: not a well-formed stream, the reference never delivers it, the code's behaviour is C16's subject)
LongLen(b) == \E i \in 1..(Len(b) - 3) : \A j \in 0..3 : b[i + j] >= 128
Inv_ImplIsRef == (mode = "enum" /\ ~LongLen(str)) => /\ FrameImpl(str) = Frame(str)
                                                     /\ FrameImpl(str \o <<208, 0>>) = Frame(str \o <<208, 0>>)
\* every action of the chunk system was taken: the whole stream can be consumed
Complete == mode = "stream" /\ pos = Len(Streams[s]) => delivered = Len(Frame(Streams[s]).pkts) /\ buf = <<>>
=============================================================================
