CONSTANTS
  Addr = {"A"}
  Profile = "pub"
  Bugs = {}
  Scn = "publisher"
  MaxD = 4 MaxGen = 1 MaxN = 2 Windows = {1, 2} MaxId = 3
SPECIFICATION LiveSpec
CONSTRAINT Bound
CHECK_DEADLOCK FALSE
PROPERTY Live_C10_queue
PROPERTY Live_C05_window
