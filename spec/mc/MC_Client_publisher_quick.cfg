CONSTANTS
  Addr = {"A"}
  Profile = "pub"
  Bugs = {}
  Scn = "publisher"
  MaxD = 4 MaxGen = 1 MaxN = 2 Windows = {1, 2} MaxId = 3
SPECIFICATION Spec
CONSTRAINT Bound
VIEW View
CHECK_DEADLOCK FALSE
INVARIANT Inv_C17
INVARIANT Inv_C10_stranded
INVARIANT Inv_C13
INVARIANT Inv_C15
PROPERTY Act_C10_window
PROPERTY Act_C11
PROPERTY Act_C12_loss
PROPERTY Act_C12_resume
PROPERTY Act_C09
PROPERTY Act_C05
PROPERTY Act_C14
PROPERTY Act_C14_pkt
PROPERTY Act_C18
PROPERTY Act_C20
PROPERTY Act_C04
PROPERTY Act_C06
PROPERTY Act_C07
