---------------------------- MODULE MC_CodecPrims ----------------------------
(* U1 for C01: the primitive codecs of the reference are exact inverses on   *)
(* their whole domains (16-bit integers: all 65536; remaining length: all    *)
(* digit classes and every boundary; UTF-8: every Unicode scalar value in    *)
(* the thorough tier), and the UTF-8 validator accepts exactly the image of  *)
(* the encoder on a family of byte strings built from boundary bytes.        *)
EXTENDS MqttCodec
CONSTANT Thorough

Groups == 0..63
VARIABLES g, job
\* jobs: <<kind, lo, hi>>
Int16Jobs == {<<"int16", k * 1024, k * 1024 + 1023>> : k \in 0..63}
LenJobs   == {<<"len", k * 520, k * 520 + 519>> : k \in 0..31}     \* 0..16639
             \cup {<<"lendigits", d, d>> : d \in 1..4}
             \cup {<<"len", 2097152 - 300, 2097152 + 300>>, <<"len", 268435455 - 300, 268435455>>}
CpStep    == 8704                                                   \* 128 jobs cover 0..1114111
CpJobs    == IF Thorough THEN {<<"cp", k * CpStep, k * CpStep + CpStep - 1>> : k \in 0..127}
             ELSE {<<"cp", 0, 12288>>, <<"cp", 55000, 58000>>, <<"cp", 65000, 66000>>, <<"cp", 1113000, 1114111>>, <<"cpsample", 0, 0>>}
BadJobs   == {<<"utf8bad", n, n>> : n \in 0..3}
Jobs == Int16Jobs \cup LenJobs \cup CpJobs \cup BadJobs
JobSeq == SetToSeq(Jobs)

Init == g \in Groups /\ job = <<"none", 0, 0>>
Next == /\ job[1] = "none"
        /\ \E k \in 1..Len(JobSeq) : k % 64 = g /\ job' = JobSeq[k]
        /\ UNCHANGED g

Digits == {0, 1, 2, 63, 64, 126, 127}
LenClass(n) == IF n < 128 THEN 1 ELSE IF n < 16384 THEN 2 ELSE IF n < 2097152 THEN 3 ELSE 4
LenOK(n) == LET e == EncLen(n)  d == DecLen(e, 1) IN
            /\ Len(e) = LenClass(n)
            /\ \A k \in 1..Len(e) : e[k] \in Byte /\ (e[k] >= 128 <=> k < Len(e))
            /\ d.ok /\ d.val = n /\ d.next = Len(e) + 1
            /\ LET d2 == DecLen(e \o <<77>>, 1) IN d2.ok /\ d2.val = n /\ d2.next = Len(e) + 1
CpClass(cp) == IF cp < 128 THEN 1 ELSE IF cp < 2048 THEN 2 ELSE IF cp < 65536 THEN 3 ELSE 4
CpOK(cp) == IF IsScalar(cp)
            THEN LET u == Utf8(cp) IN /\ Len(u) = CpClass(cp) /\ Utf8Valid(u) /\ Utf8Decode(u) = <<cp>>
                                      /\ Utf8Len(<<cp>>) = Len(u)
                                      /\ \A k \in 1..Len(u) : u[k] \in Byte
            ELSE ~Utf8Valid(<<224 + (cp \div 4096), 128 + ((cp \div 64) % 64), 128 + (cp % 64)>>)   \* encoded surrogate

\* byte strings over boundary bytes: valid iff in the image of the encoder
A == {0, 65, 127, 128, 143, 144, 159, 160, 191, 192, 193, 194, 223, 224, 237, 240, 244, 245, 255}
CpsInA == {cp \in (0..4095) \cup (53248..57343) : IsScalar(cp) /\ \A k \in 1..Len(Utf8(cp)) : Utf8(cp)[k] \in A}
RECURSIVE Image(_)
Image(n) == IF n = 0 THEN {<<>>}
            ELSE UNION {{Utf8(cp) \o r : r \in Image(n - Len(Utf8(cp)))} : cp \in {c \in CpsInA : Len(Utf8(c)) <= n}}
BadOK(n) == LET img == Image(n) IN \A b \in [1..n -> A] : Utf8Valid(b) <=> b \in img

JobOK ==
  CASE job[1] = "none"  -> TRUE
    [] job[1] = "int16" -> \A n \in job[2]..job[3] : Dec16(Enc16(n), 1) = n /\ Enc16(n)[1] \in Byte /\ Enc16(n)[2] \in Byte
                                                     /\ Dec16(EncBin(<<>>) \o Enc16(n), 3) = n
    [] job[1] = "len"   -> \A n \in job[2]..job[3] : LenOK(n)
    [] job[1] = "lendigits" ->
         /\ \A ds \in [1..job[2] -> Digits] :
              (job[2] = 1 \/ ds[job[2]] # 0) =>
                LenOK(FoldLeft(LAMBDA acc, k : acc + ds[k] * (IF k = 1 THEN 1 ELSE IF k = 2 THEN 128 ELSE IF k = 3 THEN 16384 ELSE 2097152), 0, [k \in 1..job[2] |-> k]))
         /\ EncLen(MaxRemaining) = <<255, 255, 255, 127>>
         /\ ~DecLen(<<128, 128, 128, 128, 1>>, 1).ok /\ ~DecLen(<<128, 128>>, 1).ok
    [] job[1] = "cp"    -> \A cp \in job[2]..job[3] : CpOK(cp)
    [] job[1] = "cpsample" -> \A k \in 0..11000 : CpOK(k * 101)
    [] job[1] = "utf8bad"  -> BadOK(job[2])
=============================================================================
