CONSTANT N = 6
INIT Init
NEXT Next
INVARIANT Inv_Delivered
INVARIANT Inv_ImplIsRef
INVARIANT Complete
CHECK_DEADLOCK FALSE
