CONSTANT Thorough = FALSE
INIT Init
NEXT Next
INVARIANT JobOK
CHECK_DEADLOCK FALSE
