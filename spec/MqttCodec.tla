----------------------------- MODULE MqttCodec -----------------------------
(***************************************************************************)
(* The MQTT 3.1 / 3.1.1 wire format as TLA+ operators, written from the    *)
(* OASIS MQTT 3.1.1 text (sections 1.5, 2, 3) and the 3.1 differences      *)
(* (protocol name "MQIsdp"/level 3; DUP on repeated PUBREL / SUBSCRIBE /   *)
(* UNSUBSCRIBE).  It is NOT a transcription of /repo/src/mqtt/pdu.py.      *)
(*                                                                         *)
(* bytes  : sequences over 0..255                                          *)
(* text   : sequences of Unicode code points (no surrogates)               *)
(* flags  : 0 / 1 integers (so that JSON traces need no booleans)          *)
(* packet : a record whose field t names the control packet type           *)
(*          identifier -1 stands for "no identifier" (QoS 0 PUBLISH)       *)
(***************************************************************************)
EXTENDS Integers, Sequences, SequencesExt, FiniteSets, TLC

Byte == 0..255

-----------------------------------------------------------------------------
(* 1.5.3 UTF-8 *)

Utf8(cp) ==
  IF cp < 128 THEN <<cp>>
  ELSE IF cp < 2048 THEN <<192 + (cp \div 64), 128 + (cp % 64)>>
  ELSE IF cp < 65536 THEN <<224 + (cp \div 4096), 128 + ((cp \div 64) % 64), 128 + (cp % 64)>>
  ELSE <<240 + (cp \div 262144), 128 + ((cp \div 4096) % 64), 128 + ((cp \div 64) % 64), 128 + (cp % 64)>>

IsScalar(cp) == cp \in 0..1114111 /\ ~(cp \in 55296..57343)

\* concatenation by halving: recursion depth log n, n log n copying (FlattenSeq recurses n deep)
RECURSIVE Utf8Range(_, _, _)
Utf8Range(cps, lo, hi) == IF lo > hi THEN <<>>
                          ELSE IF lo = hi THEN Utf8(cps[lo])
                          ELSE LET m == (lo + hi) \div 2 IN Utf8Range(cps, lo, m) \o Utf8Range(cps, m + 1, hi)
Utf8Str(cps) == Utf8Range(cps, 1, Len(cps))

IsCont(x) == x >= 128 /\ x < 192
\* number of bytes announced by a lead byte, 0 = not a lead byte
LeadLen(x) == IF x < 128 THEN 1
              ELSE IF x >= 194 /\ x < 224 THEN 2
              ELSE IF x >= 224 /\ x < 240 THEN 3
              ELSE IF x >= 240 /\ x < 245 THEN 4 ELSE 0

\* code point of the sequence whose lead byte is at position i (assumes enough bytes)
CpAt(b, i) ==
  LET n == LeadLen(b[i]) IN
  IF n = 1 THEN b[i]
  ELSE IF n = 2 THEN (b[i] - 192) * 64 + (b[i+1] - 128)
  ELSE IF n = 3 THEN (b[i] - 224) * 4096 + (b[i+1] - 128) * 64 + (b[i+2] - 128)
  ELSE (b[i] - 240) * 262144 + (b[i+1] - 128) * 4096 + (b[i+2] - 128) * 64 + (b[i+3] - 128)

\* well-formed UTF-8 (RFC 3629: shortest form, no surrogates, <= U+10FFFF); linear in Len(b)
Utf8Valid(b) ==
  /\ \A i \in 1..Len(b) : b[i] \in Byte
  /\ \A i \in 1..Len(b) :
       IF IsCont(b[i])
       THEN \* a continuation byte belongs to the sequence of a lead byte at most 3 back
            \E k \in 1..3 : /\ i - k >= 1 /\ ~IsCont(b[i-k]) /\ LeadLen(b[i-k]) > k
                            /\ \A j \in 1..(k-1) : IsCont(b[i-j])
       ELSE LET n == LeadLen(b[i]) IN
            /\ n > 0
            /\ i + n - 1 <= Len(b)
            /\ \A j \in 1..(n-1) : IsCont(b[i+j])
            /\ LET cp == CpAt(b, i) IN
               /\ (n = 2 => cp >= 128)
               /\ (n = 3 => cp >= 2048 /\ ~(cp \in 55296..57343))
               /\ (n = 4 => cp >= 65536 /\ cp <= 1114111)

Utf8Decode(b) ==
  LET leads == SelectSeq([i \in 1..Len(b) |-> i], LAMBDA i : ~IsCont(b[i]))
  IN  [k \in 1..Len(leads) |-> CpAt(b, leads[k])]

Utf8Len(cps) == LET f == [i \in 1..Len(cps) |-> IF cps[i] < 128 THEN 1 ELSE IF cps[i] < 2048 THEN 2 ELSE IF cps[i] < 65536 THEN 3 ELSE 4]
                IN FoldLeft(LAMBDA a, x : a + x, 0, f)

-----------------------------------------------------------------------------
(* 1.5.2 two-byte integers, 1.5.3 length-prefixed strings, 2.2.3 remaining length *)

Enc16(n) == <<n \div 256, n % 256>>
Dec16(b, i) == b[i] * 256 + b[i+1]

EncBin(bs)  == Enc16(Len(bs)) \o bs
EncStr(cps) == EncBin(Utf8Str(cps))

\* OASIS 2.2.3 encoding algorithm (do .. while X > 0)
RECURSIVE EncLen(_)
EncLen(x) == LET d == x % 128  r == x \div 128 IN
             IF r > 0 THEN <<d + 128>> \o EncLen(r) ELSE <<d>>

\* OASIS 2.2.3 decoding algorithm starting at position i of b
RECURSIVE DecLenR(_, _, _, _)
DecLenR(b, i, mult, acc) ==
  IF i > Len(b) THEN [ok |-> FALSE, val |-> 0, next |-> i]
  ELSE LET v == acc + (b[i] % 128) * mult IN
       IF b[i] < 128 THEN [ok |-> TRUE, val |-> v, next |-> i + 1]
       ELSE IF mult >= 2097152 THEN [ok |-> FALSE, val |-> 0, next |-> i]
       ELSE DecLenR(b, i + 1, mult * 128, v)
DecLen(b, i) == DecLenR(b, i, 1, 0)

MaxRemaining == 268435455

-----------------------------------------------------------------------------
(* Packets *)

ProtoName(ver) == IF ver = 3 THEN <<77, 81, 73, 115, 100, 112>> ELSE <<77, 81, 84, 84>>

Bad(why) == [t |-> "malformed", why |-> why]
IsBad(p) == p.t = "malformed"

Frame1(first, body) == <<first>> \o EncLen(Len(body)) \o body

ConnectFlags(p) == p.user * 128 + p.pass * 64 + p.will * (p.wretain * 32 + p.wqos * 8 + 4) + p.clean * 2

FlattenTopicsQ(ts) == FlattenSeq([i \in 1..Len(ts) |-> EncStr(ts[i][1]) \o <<ts[i][2]>>])
FlattenTopics(ts)  == FlattenSeq([i \in 1..Len(ts) |-> EncStr(ts[i])])

\* body of the variable header + payload
BodyOf(p) ==
  CASE p.t = "CONNECT" ->
         EncStr(ProtoName(p.ver)) \o <<p.ver, ConnectFlags(p)>> \o Enc16(p.ka) \o EncStr(p.cid)
         \o (IF p.will = 1 THEN EncStr(p.wtopic) \o EncStr(p.wmsg) ELSE <<>>)
         \o (IF p.user = 1 THEN EncStr(p.uname) ELSE <<>>)
         \o (IF p.pass = 1 THEN EncBin(p.pwd) ELSE <<>>)
    [] p.t = "CONNACK"     -> <<p.session, p.code>>
    [] p.t = "PUBLISH"     -> EncStr(p.topic) \o (IF p.qos > 0 THEN Enc16(p.id) ELSE <<>>) \o p.payload
    [] p.t \in {"PUBACK", "PUBREC", "PUBREL", "PUBCOMP", "UNSUBACK"} -> Enc16(p.id)
    [] p.t = "SUBSCRIBE"   -> Enc16(p.id) \o FlattenTopicsQ(p.topics)
    [] p.t = "SUBACK"      -> Enc16(p.id) \o [i \in 1..Len(p.granted) |-> p.granted[i][1] + 128 * p.granted[i][2]]
    [] p.t = "UNSUBSCRIBE" -> Enc16(p.id) \o FlattenTopics(p.topics)
    [] p.t \in {"PINGREQ", "PINGRESP", "DISCONNECT"} -> <<>>

\* first byte: packet type and the flag bits the standard mandates (2.2.1, 2.2.2)
FirstOf(p) ==
  CASE p.t = "CONNECT"     -> 16
    [] p.t = "CONNACK"     -> 32
    [] p.t = "PUBLISH"     -> 48 + p.dup * 8 + p.qos * 2 + p.retain
    [] p.t = "PUBACK"      -> 64
    [] p.t = "PUBREC"      -> 80
    [] p.t = "PUBREL"      -> 98 + p.dup * 8
    [] p.t = "PUBCOMP"     -> 112
    [] p.t = "SUBSCRIBE"   -> 130 + p.dup * 8
    [] p.t = "SUBACK"      -> 144
    [] p.t = "UNSUBSCRIBE" -> 162 + p.dup * 8
    [] p.t = "UNSUBACK"    -> 176
    [] p.t = "PINGREQ"     -> 192
    [] p.t = "PINGRESP"    -> 208
    [] p.t = "DISCONNECT"  -> 224

Encode(p) == Frame1(FirstOf(p), BodyOf(p))
\* the bytes that precede a PUBLISH payload of n bytes (for payloads too large to materialise)
PublishHead(p, n) ==
  LET vh == EncStr(p.topic) \o (IF p.qos > 0 THEN Enc16(p.id) ELSE <<>>)
  IN <<FirstOf(p)>> \o EncLen(Len(vh) + n) \o vh

TypeName == [i \in 1..14 |-> CASE i = 1 -> "CONNECT" [] i = 2 -> "CONNACK" [] i = 3 -> "PUBLISH" [] i = 4 -> "PUBACK"
                                [] i = 5 -> "PUBREC" [] i = 6 -> "PUBREL" [] i = 7 -> "PUBCOMP" [] i = 8 -> "SUBSCRIBE"
                                [] i = 9 -> "SUBACK" [] i = 10 -> "UNSUBSCRIBE" [] i = 11 -> "UNSUBACK"
                                [] i = 12 -> "PINGREQ" [] i = 13 -> "PINGRESP" [] i = 14 -> "DISCONNECT"]

ClientTypes == {"CONNECT", "PUBLISH", "PUBACK", "PUBREC", "PUBREL", "PUBCOMP", "SUBSCRIBE", "UNSUBSCRIBE", "PINGREQ", "DISCONNECT"}
BrokerTypes == {"CONNACK", "PUBLISH", "PUBACK", "PUBREC", "PUBREL", "PUBCOMP", "SUBACK", "UNSUBACK", "PINGRESP"}
ClientPacket(p) == p.t \in ClientTypes
BrokerPacket(p) == p.t \in BrokerTypes

-----------------------------------------------------------------------------
(* Decoding.  b is one complete packet (fixed header .. last byte).        *)
(* strict = TRUE : every rule of the standard that applies to the packet   *)
(*                 (used for what the client writes);                     *)
(* strict = FALSE: assumption A7 of DESIGN.md (reserved flag bits of        *)
(*                 non-PUBLISH packets and surplus bytes are not judged).  *)
(* ver is the protocol level in force (3 or 4): under 3 the DUP bit of      *)
(* PUBREL / SUBSCRIBE / UNSUBSCRIBE may be set.                            *)

\* a length-prefixed UTF-8 string at position i, wholly before position lim (exclusive)
StrAt(b, i, lim) ==
  IF i + 1 >= lim THEN [ok |-> FALSE, val |-> <<>>, next |-> i]
  ELSE LET n == Dec16(b, i) IN
       IF i + 2 + n > lim THEN [ok |-> FALSE, val |-> <<>>, next |-> i]
       ELSE LET s == SubSeq(b, i + 2, i + 1 + n) IN
            IF Utf8Valid(s) THEN [ok |-> TRUE, val |-> Utf8Decode(s), next |-> i + 2 + n]
            ELSE [ok |-> FALSE, val |-> <<>>, next |-> i]
BinAt(b, i, lim) ==
  IF i + 1 >= lim THEN [ok |-> FALSE, val |-> <<>>, next |-> i]
  ELSE LET n == Dec16(b, i) IN
       IF i + 2 + n > lim THEN [ok |-> FALSE, val |-> <<>>, next |-> i]
       ELSE [ok |-> TRUE, val |-> SubSeq(b, i + 2, i + 1 + n), next |-> i + 2 + n]

\* topic filters with QoS, from position i to lim
RECURSIVE TopicsQAt(_, _, _, _, _)
TopicsQAt(b, i, lim, acc, strict) ==
  IF i = lim THEN [ok |-> TRUE, val |-> acc]
  ELSE LET s == StrAt(b, i, lim) IN
       IF ~s.ok \/ s.next >= lim THEN [ok |-> FALSE, val |-> acc]
       ELSE LET q == b[s.next] IN
            IF (strict /\ q > 2) \/ (~strict /\ q % 4 = 3) THEN [ok |-> FALSE, val |-> acc]
            ELSE TopicsQAt(b, s.next + 1, lim, Append(acc, <<s.val, q % 4>>), strict)
RECURSIVE TopicsAt(_, _, _, _)
TopicsAt(b, i, lim, acc) ==
  IF i = lim THEN [ok |-> TRUE, val |-> acc]
  ELSE LET s == StrAt(b, i, lim) IN
       IF ~s.ok THEN [ok |-> FALSE, val |-> acc]
       ELSE TopicsAt(b, s.next, lim, Append(acc, s.val))

DecodeConnect(b, i, lim, strict) ==
  LET pn == StrAt(b, i, lim) IN
  IF ~pn.ok \/ pn.next + 3 >= lim THEN Bad("connect.header") ELSE
  LET ver == b[pn.next]  fl == b[pn.next + 1]  ka == Dec16(b, pn.next + 2)
      user == fl \div 128  pass == (fl \div 64) % 2  wret == (fl \div 32) % 2
      wqos == (fl \div 8) % 4  will == (fl \div 4) % 2  clean == (fl \div 2) % 2
  IN
  IF ~(ver \in {3, 4}) \/ Utf8Str(pn.val) # ProtoName(ver) THEN Bad("connect.protocol") ELSE
  IF fl % 2 = 1 THEN Bad("connect.reserved") ELSE
  IF wqos = 3 \/ (will = 0 /\ (wqos # 0 \/ wret # 0)) THEN Bad("connect.willflags") ELSE
  IF pass = 1 /\ user = 0 THEN Bad("connect.password_without_user") ELSE
  LET cid == StrAt(b, pn.next + 4, lim) IN
  IF ~cid.ok THEN Bad("connect.clientid") ELSE
  LET wt == IF will = 1 THEN StrAt(b, cid.next, lim) ELSE [ok |-> TRUE, val |-> <<>>, next |-> cid.next] IN
  IF ~wt.ok THEN Bad("connect.willtopic") ELSE
  LET wm == IF will = 1 THEN StrAt(b, wt.next, lim) ELSE [ok |-> TRUE, val |-> <<>>, next |-> wt.next] IN
  IF ~wm.ok THEN Bad("connect.willmessage") ELSE
  LET un == IF user = 1 THEN StrAt(b, wm.next, lim) ELSE [ok |-> TRUE, val |-> <<>>, next |-> wm.next] IN
  IF ~un.ok THEN Bad("connect.username") ELSE
  LET pw == IF pass = 1 THEN BinAt(b, un.next, lim) ELSE [ok |-> TRUE, val |-> <<>>, next |-> un.next] IN
  IF ~pw.ok THEN Bad("connect.password") ELSE
  IF strict /\ pw.next # lim THEN Bad("connect.surplus") ELSE
  [t |-> "CONNECT", ver |-> ver, clean |-> clean, ka |-> ka, cid |-> cid.val,
   will |-> will, wtopic |-> wt.val, wmsg |-> wm.val, wqos |-> wqos, wretain |-> wret,
   user |-> user, uname |-> un.val, pass |-> pass, pwd |-> pw.val]

Decode(b, ver, strict) ==
  IF Len(b) < 2 THEN Bad("short") ELSE
  LET ty == b[1] \div 16  fl == b[1] % 16  rl == DecLen(b, 2) IN
  IF ~rl.ok THEN Bad("remaining_length") ELSE
  IF ty = 0 \/ ty = 15 THEN Bad("type") ELSE
  LET i == rl.next  lim == Len(b) + 1  name == TypeName[ty] IN
  IF rl.val # lim - i THEN Bad("length_mismatch") ELSE
  IF strict /\ EncLen(rl.val) # SubSeq(b, 2, i - 1) THEN Bad("length_not_minimal") ELSE
  LET dupOK == (ver = 3 /\ fl = 10)
      flagsOK == CASE name = "PUBLISH" -> TRUE
                   [] name \in {"PUBREL", "SUBSCRIBE", "UNSUBSCRIBE"} -> fl = 2 \/ dupOK
                   [] OTHER -> fl = 0
  IN
  IF strict /\ ~flagsOK THEN Bad("flags") ELSE
  CASE name = "CONNECT" -> DecodeConnect(b, i, lim, strict)
    [] name = "CONNACK" ->
         IF lim - i < 2 \/ (strict /\ lim - i # 2) THEN Bad("connack.length")
         ELSE IF strict /\ b[i] > 1 THEN Bad("connack.reserved")
         ELSE [t |-> "CONNACK", session |-> b[i] % 2, code |-> b[i+1]]
    [] name = "PUBLISH" ->
         LET qos == (fl \div 2) % 4  dup == fl \div 8  retain == fl % 2  tp == StrAt(b, i, lim) IN
         \* (the implementation's decoder does not look at the QoS bits: a lenient decode yields a PUBLISH with qos = 3,
         \*  which no handler branch takes)
         IF strict /\ qos = 3 THEN Bad("publish.qos3")
         ELSE IF strict /\ qos = 0 /\ dup = 1 THEN Bad("publish.dup_qos0")
         ELSE IF ~tp.ok THEN Bad("publish.topic")
         ELSE IF qos > 0 /\ tp.next + 1 >= lim THEN Bad("publish.id")
         ELSE LET id == IF qos > 0 THEN Dec16(b, tp.next) ELSE -1
                  ps == IF qos > 0 THEN tp.next + 2 ELSE tp.next IN
              [t |-> "PUBLISH", dup |-> dup, qos |-> qos, retain |-> retain, topic |-> tp.val,
                    id |-> id, payload |-> SubSeq(b, ps, lim - 1)]
    [] name \in {"PUBACK", "PUBREC", "PUBCOMP", "UNSUBACK"} ->
         IF lim - i < 2 \/ (strict /\ lim - i # 2) THEN Bad("ack.length")
         ELSE [t |-> name, id |-> Dec16(b, i)]
    [] name = "PUBREL" ->
         IF lim - i < 2 \/ (strict /\ lim - i # 2) THEN Bad("ack.length")
         ELSE [t |-> name, id |-> Dec16(b, i), dup |-> fl \div 8]
    [] name = "SUBSCRIBE" ->
         IF lim - i < 2 THEN Bad("subscribe.id") ELSE
         LET ts == TopicsQAt(b, i + 2, lim, <<>>, strict) IN
         IF ~ts.ok \/ Len(ts.val) = 0 THEN Bad("subscribe.topics")
         ELSE [t |-> name, id |-> Dec16(b, i), dup |-> fl \div 8, topics |-> ts.val]
    [] name = "UNSUBSCRIBE" ->
         IF lim - i < 2 THEN Bad("unsubscribe.id") ELSE
         LET ts == TopicsAt(b, i + 2, lim, <<>>) IN
         IF ~ts.ok \/ Len(ts.val) = 0 THEN Bad("unsubscribe.topics")
         ELSE [t |-> name, id |-> Dec16(b, i), dup |-> fl \div 8, topics |-> ts.val]
    [] name = "SUBACK" ->
         IF lim - i < 2 THEN Bad("suback.id")
         ELSE IF strict /\ lim - i < 3 THEN Bad("suback.empty")
         ELSE IF strict /\ \E k \in (i + 2)..(lim - 1) : ~(b[k] \in {0, 1, 2, 128}) THEN Bad("suback.code")
         ELSE [t |-> name, id |-> Dec16(b, i),
               granted |-> [k \in 1..(lim - i - 2) |-> <<b[i + 1 + k] % 128, b[i + 1 + k] \div 128>>]]
    [] name \in {"PINGREQ", "PINGRESP", "DISCONNECT"} ->
         IF strict /\ lim # i THEN Bad("empty.length") ELSE [t |-> name]

DecodeStrict(b, ver)  == Decode(b, ver, TRUE)
DecodeLenient(b, ver) == Decode(b, ver, FALSE)

-----------------------------------------------------------------------------
(* Representability (what encode() must accept; everything else must raise) *)

TextOK(s) == (\A i \in 1..Len(s) : IsScalar(s[i])) /\ Utf8Len(s) <= 65535
IdOK(n)   == n \in 0..65535

Representable(p) ==
  CASE p.t = "CONNECT" ->
         /\ p.ver \in {3, 4} /\ IdOK(p.ka) /\ TextOK(p.cid)
         /\ (p.will = 1 => TextOK(p.wtopic) /\ TextOK(p.wmsg) /\ p.wqos \in 0..2)
         /\ (p.user = 1 => TextOK(p.uname)) /\ (p.pass = 1 => Len(p.pwd) <= 65535)
    [] p.t = "PUBLISH" -> /\ TextOK(p.topic) /\ (p.qos > 0 => IdOK(p.id)) /\ p.qos \in 0..2
    [] p.t \in {"PUBACK", "PUBREC", "PUBREL", "PUBCOMP", "UNSUBACK"} -> IdOK(p.id)
    [] p.t = "SUBSCRIBE"   -> IdOK(p.id) /\ \A i \in 1..Len(p.topics) : TextOK(p.topics[i][1]) /\ p.topics[i][2] \in 0..2
    [] p.t = "UNSUBSCRIBE" -> IdOK(p.id) /\ \A i \in 1..Len(p.topics) : TextOK(p.topics[i])
    [] p.t = "SUBACK"      -> IdOK(p.id)
    [] OTHER -> TRUE

=============================================================================
