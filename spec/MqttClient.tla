----------------------------- MODULE MqttClient -----------------------------
(***************************************************************************)
(* The twisted-mqtt client as a state machine: one MQTTFactory, a set of   *)
(* broker addresses, per address a sequence of connections (protocol       *)
(* object + transport).  One action per handler / critical section of the  *)
(* implementation, named after it.  Every action also records the stimulus *)
(* it stands for (stim) and the sequence of observable effects (fx).       *)
(*                                                                         *)
(* Time: 1 tick = 1/1024 s (the harness clock uses the same unit).         *)
(* API arguments are given in the trace encoding ("jval": a record with a  *)
(* field ty in int/str/none/... and, for int and str, a field v).          *)
(* The module defines the actions; the next-state relation is assembled by *)
(* the model-checking instances (spec/mc) and by spec/trace/TraceConf.     *)
(***************************************************************************)
EXTENDS MqttArgs

CONSTANTS Addr,      \* set of broker addresses
          Profile,   \* "pub" | "sub" | "both"
          MaxId,     \* wrap modulus of the identifier counter (65535 in the code)
          Bugs       \* named deviations (specification mutants); {} in every claim

VARIABLES nextId,    \* factory.id
          nd,        \* number of Deferreds handed out so far (handles are 1..nd)
          sess,      \* per address: queue, pub, rel, sub, unsub, rx   (factory containers)
          conn,      \* per address: the current protocol object + transport
          timers,    \* pending DelayedCalls: [kind, a, g, id, at, x]
          now,       \* virtual time in ticks
          stim, fx   \* observation interface

sv   == <<nextId, nd, sess, conn, timers, now>>
vars == <<sv, stim, fx>>

PubCapable == Profile \in {"pub", "both"}
SubCapable == Profile \in {"sub", "both"}

-----------------------------------------------------------------------------
(* effects *)
W(a, g, p)        == [k |-> "write", a |-> a, g |-> g, p |-> p]
Arm(tm)           == [k |-> "arm", kind |-> tm.kind, a |-> tm.a, g |-> tm.g, id |-> tm.id, delay |-> tm.at - now]
Cancel(tm)        == [k |-> "cancel", kind |-> tm.kind, a |-> tm.a, g |-> tm.g, id |-> tm.id, at |-> tm.at]
FireOk(d, val)    == [k |-> "fire", d |-> d, ok |-> 1, val |-> val]
FireErr(d, exc)   == [k |-> "fire", d |-> d, ok |-> 0, exc |-> exc]
Cb(a, name, args) == [k |-> "cb", a |-> a, name |-> name, args |-> args]
Close(a, g, how)  == [k |-> "close", a |-> a, g |-> g, how |-> how]
Ret(d, mid)       == [k |-> "ret", d |-> d, mid |-> mid]
Raise(exc)        == [k |-> "raise", exc |-> exc]

VNone     == [ty |-> "none"]
VInt(n)   == [ty |-> "int", v |-> n]
VBool(b)  == [ty |-> "bool", v |-> b]
VGranted(g) == [ty |-> "granted", v |-> g]

Timer(kind, a, g, id, at, x) == [kind |-> kind, a |-> a, g |-> g, id |-> id, at |-> at, x |-> x]

-----------------------------------------------------------------------------
(* timing laws (mqtt/client/interval.py, base.py), in ticks, jitter pinned to 0 *)
RECURSIVE Pow(_, _)
Pow(b, e) == IF e = 0 THEN 1 ELSE b * Pow(b, e - 1)
Min2(x, y) == IF x < y THEN x ELSE y
Max2(x, y) == IF x > y THEN x ELSE y

\* Interval.__call__ number n (n >= 1): min(initial * 2^n, max(initial, 1024)) seconds
IntervalDelay(n, initT) == 1024 * Min2(initT * Pow(2, Min2(n, 12)), Max2(initT, 1024))
\* IntervalLinear.__call__ number n: initial + factor^(n-1) * size / bandwith seconds
\* (k * size * 1024) \div bw computed so that no intermediate exceeds TLC's 32-bit integers while k * size does not
PubDelay(r, n) == LET ks == Pow(r.factor, n - 1) * r.size IN
                  1024 * r.initT + (ks \div r.bw) * 1024 + ((ks % r.bw) * 1024) \div r.bw
SubDelay(n, initT, wlen) == IntervalDelay(n, initT) + 256 * wlen
ConnackDelay(ka) == 1024 * (IF ka = 0 THEN 10 ELSE ka)
DiscDelay == 102          \* floor(0.1 * 1024)

\* length of an encoded PUBLISH (len(request.encoded))
LenLen(n) == IF n < 128 THEN 1 ELSE IF n < 16384 THEN 2 ELSE IF n < 2097152 THEN 3 ELSE 4
PubSize(topic, nbytes, qos) == LET rl == 2 + Utf8Len(topic) + (IF qos > 0 THEN 2 ELSE 0) + nbytes IN 1 + LenLen(rl) + rl

-----------------------------------------------------------------------------
(* insertion-ordered dictionaries as sequences of records with a field id *)
Has(s, id)  == \E i \in 1..Len(s) : s[i].id = id
Pos(s, id)  == CHOOSE i \in 1..Len(s) : s[i].id = id
Drop(s, id) == SelectSeq(s, LAMBDA r : r.id # id)
Put(s, r)   == IF Has(s, r.id) THEN [s EXCEPT ![Pos(s, r.id)] = r] ELSE Append(s, r)
IdsOf(s)    == {s[i].id : i \in 1..Len(s)}

\* identifiers of unfinished requests of the whole factory
InUse == UNION {IdsOf(SelectSeq(sess[a].queue, LAMBDA r : r.qos > 0)) \cup IdsOf(sess[a].pub) \cup IdsOf(sess[a].rel)
                \cup IdsOf(sess[a].sub) \cup IdsOf(sess[a].unsub) : a \in Addr}
SuccId(i) == IF i >= MaxId THEN 1 ELSE i + 1
RECURSIVE FreeFrom(_, _, _)
FreeFrom(i, n, used) == IF n = 0 THEN i              \* every identifier in use: the code gives up after a full cycle
                        ELSE IF SuccId(i) \notin used THEN SuccId(i) ELSE FreeFrom(SuccId(i), n - 1, used)
\* factory.makeId() called with the counter at i
MakeIdFrom(i) == IF "id_reuse" \in Bugs THEN SuccId(i) ELSE FreeFrom(i, MaxId, InUse)

-----------------------------------------------------------------------------
(* packets the client writes *)
PktPublish(r, dup) == [t |-> "PUBLISH", dup |-> dup, qos |-> r.qos, retain |-> r.retain, topic |-> r.topic,
                       id |-> IF r.qos > 0 THEN r.id ELSE -1, payload |-> r.payload]
PktPubrel(id, dup)    == [t |-> "PUBREL", id |-> id, dup |-> dup]
PktSubscribe(r, dup)  == [t |-> "SUBSCRIBE", id |-> r.id, dup |-> dup, topics |-> r.topics]
PktUnsubscribe(r, dup) == [t |-> "UNSUBSCRIBE", id |-> r.id, dup |-> dup, topics |-> r.topics]
PktAck(t, id) == [t |-> t, id |-> id]

-----------------------------------------------------------------------------
(* initial state *)
NoSess == [queue |-> <<>>, pub |-> <<>>, rel |-> <<>>, sub |-> <<>>, unsub |-> <<>>, rx |-> <<>>]
NoConn == [g |-> 0, ps |-> "none", tr |-> "none", clean |-> 1, ver |-> 4, ka |-> 0, window |-> 1, initT |-> 4,
           bw |-> 10000, factor |-> 2, hPub |-> 0, hDisc |-> 0, hMade |-> 0, cd |-> 0, pingAl |-> -1]
FreshConn(g) == [NoConn EXCEPT !.g = g, !.ps = "idle", !.tr = "open"]

Init == /\ nextId = 0 /\ nd = 0
        /\ sess = [a \in Addr |-> NoSess]
        /\ conn = [a \in Addr |-> NoConn]
        /\ timers = {} /\ now = 0
        /\ stim = [op |-> "init"] /\ fx = <<>>

SetSess(a, s2) == sess' = [sess EXCEPT ![a] = s2]
SetConn(a, c2) == conn' = [conn EXCEPT ![a] = c2]

TimersOf(kind, a, g, id) == {t \in timers : t.kind = kind /\ t.a = a /\ t.g = g /\ t.id = id}
\* cancel effects for a set of at most one timer
CancelSeq(ts) == IF ts = {} THEN <<>> ELSE <<Cancel(CHOOSE t \in ts : TRUE)>>

-----------------------------------------------------------------------------
(* factory.buildProtocol(a) + makeConnection(transport)                     *)
Build(a) ==
  /\ conn[a].tr \in {"none", "lost"}
  /\ SetConn(a, FreshConn(conn[a].g + 1))
  /\ stim' = [op |-> "build", a |-> a] /\ fx' = <<>>
  /\ UNCHANGED <<nextId, nd, sess, timers, now>>

-----------------------------------------------------------------------------
(* setWindowSize / setTimeout / setBandwith / handler attributes (base.py 563-579, pubsubs.py 154) *)
Set(a, what, v, v2) ==
  /\ conn[a].ps # "none"
  /\ LET chk == SetCheck(what, v, v2)  c == conn[a] IN
     /\ fx' = IF chk = "ok" THEN <<>> ELSE <<Raise(chk)>>
     /\ SetConn(a, IF chk # "ok" THEN c
                   ELSE CASE what = "window"   -> [c EXCEPT !.window = v.v]
                          [] what = "timeout"  -> [c EXCEPT !.initT = v.v]
                          [] what = "bandwith" -> [c EXCEPT !.bw = v.v, !.factor = IF IsInt(v2) THEN v2.v ELSE 2]
                          [] what = "onPublish" -> [c EXCEPT !.hPub = v.v]
                          [] what = "onDisconnection" -> [c EXCEPT !.hDisc = v.v]
                          [] what = "onMqttConnectionMade" -> [c EXCEPT !.hMade = v.v])
  /\ stim' = [op |-> "set", a |-> a, what |-> what, v |-> v, v2 |-> v2]
  /\ UNCHANGED <<nextId, nd, sess, timers, now>>

-----------------------------------------------------------------------------
(* failing a list of requests: one errback each, in list order *)
FailSeq(rs, exc) == [i \in 1..Len(rs) |-> FireErr(rs[i].d, exc)]
QosPos(q) == SelectSeq(q, LAMBDA r : r.qos > 0)

\* _purgeSession(reason): subscribe, unsubscribe, publish and release windows, then the held-back queue
PurgeFx(s, exc) == FailSeq(s.sub, exc) \o FailSeq(s.unsub, exc) \o FailSeq(s.pub, exc) \o FailSeq(s.rel, exc)
                   \o (IF "queue_not_purged" \in Bugs THEN <<>> ELSE FailSeq(QosPos(s.queue), exc))
Purged(s) == [s EXCEPT !.sub = <<>>, !.unsub = <<>>, !.pub = <<>>, !.rel = <<>>,
                       !.queue = IF "queue_not_purged" \in Bugs THEN @ ELSE <<>>]

-----------------------------------------------------------------------------
(* cancelling the retry alarms of an address (pubsubs._cancelAlarms): subscribe, unsubscribe, publish, release *)
LiveTimers(a, g, s) ==
  LET pick(kind, rs) == [i \in 1..Len(SelectSeq(rs, LAMBDA r : r.live)) |->
                           CHOOSE t \in TimersOf(kind, a, g, SelectSeq(rs, LAMBDA r : r.live)[i].id) : TRUE]
  IN pick("sub", s.sub) \o pick("unsub", s.unsub) \o pick("pub", s.pub) \o pick("rel", s.rel)
Unlive(rs) == [i \in 1..Len(rs) |-> [rs[i] EXCEPT !.live = FALSE]]
AllUnlive(s) == [s EXCEPT !.sub = Unlive(@), !.unsub = Unlive(@), !.pub = Unlive(@), !.rel = Unlive(@)]
\* stopping the keepalive (base._stopKeepalive): the looping call, then the deadline alarm if still pending
KeepaliveTimers(a, k) ==
  LET loop == {t \in timers : t.kind = "ping" /\ t.a = a /\ t.g = k.g}
      dl   == {t \in timers : t.kind = "pingdl" /\ t.a = a /\ t.g = k.g /\ t.at = k.pingAl}
  IN (IF loop = {} THEN <<>> ELSE <<CHOOSE t \in loop : TRUE>>) \o (IF dl = {} THEN <<>> ELSE <<CHOOSE t \in dl : TRUE>>)
SeqToSet(s) == {s[i] : i \in 1..Len(s)}

-----------------------------------------------------------------------------
(* connect()  (base.py connect / doConnect / _checkConnect, pdu.CONNECT.encode) *)
Connect(a, c) ==
  /\ conn[a].ps # "none"
  /\ stim' = [op |-> "connect", a |-> a, c |-> c]
  /\ LET k == conn[a]  d == nd + 1  chk == ConnectCheck(c) IN
     IF k.ps # "idle" THEN
       \* BaseState.connect: a Deferred already failed with MQTTStateError
       /\ nd' = d /\ fx' = <<FireErr(d, "MQTTStateError"), Ret(d, -1)>>
       /\ IF "refused_connect_sets_params" \in Bugs /\ chk = "ok"
          THEN SetConn(a, [k EXCEPT !.clean = c.clean, !.ver = c.ver]) /\ UNCHANGED <<nextId, sess, timers, now>>
          ELSE UNCHANGED <<nextId, sess, conn, timers, now>>
     ELSE IF chk = "TypeError" THEN
       \* doConnect only catches ValueError: a TypeError escapes synchronously, no Deferred is created
       /\ fx' = <<Raise("TypeError")>> /\ UNCHANGED <<nextId, nd, sess, conn, timers, now>>
     ELSE IF chk = "ValueError" THEN
       /\ nd' = d /\ fx' = <<FireErr(d, "ValueError"), Ret(d, -1)>>
       /\ UNCHANGED <<nextId, sess, conn, timers, now>>
     ELSE
       LET tm == Timer("connack", a, k.g, d, now + ConnackDelay(c.ka.v), "")
           s  == sess[a]
           purge == c.clean = 1 /\ ~("purge_at_connack" \in Bugs)
           lt == LiveTimers(a, k.g, s)
       IN
       /\ nd' = d
       /\ timers' = (timers \ (IF purge THEN SeqToSet(lt) ELSE {})) \cup {tm}
       /\ SetConn(a, [k EXCEPT !.ps = "connecting", !.clean = c.clean, !.ver = c.ver, !.ka = c.ka.v, !.cd = d])
       \* a clean session discards whatever an earlier connection left behind (pubsubs.doConnect -> _purgeSession),
       \* cancelling the retry alarms that may still run for it (connect() again after a refused CONNACK)
       /\ SetSess(a, IF purge THEN Purged(s) ELSE s)
       /\ fx' = <<W(a, k.g, PktConnect(c)), Arm(tm)>>
                \o (IF purge THEN [i \in 1..Len(lt) |-> Cancel(lt[i])] \o PurgeFx(s, "MQTTSessionCleared") ELSE <<>>) \o <<Ret(d, -1)>>
       /\ UNCHANGED <<nextId, now>>

-----------------------------------------------------------------------------
(* disconnect()  (base.py disconnect / doDisconnect) *)
Disconnect(a) ==
  /\ conn[a].ps # "none"
  /\ stim' = [op |-> "disconnect", a |-> a]
  /\ LET k == conn[a] IN
     IF k.ps # "connected" THEN
       /\ fx' = <<Raise("MQTTStateError")>> /\ UNCHANGED <<nextId, nd, sess, conn, timers, now>>
     ELSE
       LET kt == IF "disconnect_keeps_timers" \in Bugs THEN <<>> ELSE KeepaliveTimers(a, k) \o LiveTimers(a, k.g, sess[a]) IN
       /\ fx' = <<W(a, k.g, [t |-> "DISCONNECT"]), Close(a, k.g, "lose")>> \o [i \in 1..Len(kt) |-> Cancel(kt[i])]
       /\ timers' = timers \ SeqToSet(kt)
       /\ SetSess(a, IF "disconnect_keeps_timers" \in Bugs THEN sess[a] ELSE AllUnlive(sess[a]))
       /\ SetConn(a, [k EXCEPT !.ps = IF "disconnect_keeps_timers" \in Bugs THEN "connected" ELSE "disconnecting",
                               !.tr = IF @ = "open" THEN "closing" ELSE @,
                               !.pingAl = IF "disconnect_keeps_timers" \in Bugs THEN @ ELSE -1])
       /\ UNCHANGED <<nextId, nd, now>>

-----------------------------------------------------------------------------
(* _refillPublish: move held-back messages into the window while it has room *)
RECURSIVE Refill(_, _, _, _, _, _, _)
\* q: queue, p: window, out: effects so far, tm: timers, a, g, w: window size;  returns [q, p, out, tm]
Refill(q, p, out, tm, a, g, w) ==
  IF q = <<>> \/ Len(p) >= w THEN [q |-> q, p |-> p, out |-> out, tm |-> tm]
  ELSE LET r == Head(q) IN
       IF r.qos = 0 THEN Refill(Tail(q), p, Append(out, W(a, g, PktPublish(r, 0))), tm, a, g, w)
       ELSE \* the retry interval is created now, from the settings of the protocol that first sends the message
            LET r2 == IF "interval_at_publish" \in Bugs THEN r ELSE [r EXCEPT !.initT = conn[a].initT, !.bw = conn[a].bw, !.factor = conn[a].factor]
                t == Timer("pub", a, g, r.id, now + PubDelay(r2, r.n + 1), "") IN
            Refill(Tail(q), Append(p, [r2 EXCEPT !.n = @ + 1, !.live = TRUE]),
                   out \o <<Arm(t), W(a, g, PktPublish(r, r.dup))>>, tm \cup {t}, a, g, w)
\* the defect of the pinned commit: the number of messages moved is computed once, QoS 0 messages use up slots
RECURSIVE RefillN(_, _, _, _, _, _, _)
RefillN(n, q, p, out, tm, a, g) ==
  IF n <= 0 \/ q = <<>> THEN [q |-> q, p |-> p, out |-> out, tm |-> tm]
  ELSE LET r == Head(q) IN
       IF r.qos = 0 THEN RefillN(n - 1, Tail(q), p, Append(out, W(a, g, PktPublish(r, 0))), tm, a, g)
       ELSE LET t == Timer("pub", a, g, r.id, now + PubDelay(r, r.n + 1), "") IN
            RefillN(n - 1, Tail(q), Append(p, [r EXCEPT !.n = @ + 1, !.live = TRUE]),
                    out \o <<Arm(t), W(a, g, PktPublish(r, r.dup))>>, tm \cup {t}, a, g)
DoRefill(q, p, tm, a) ==
  IF "strand_qos0" \in Bugs
  THEN RefillN(Min2(Max2(conn[a].window - Len(p), 0), Len(q)), q, p, <<>>, tm, a, conn[a].g)
  ELSE Refill(q, p, <<>>, tm, a, conn[a].g, conn[a].window)

-----------------------------------------------------------------------------
(* publish()  (pubsubs.py publish / doPublish / _checkPublish, pdu.PUBLISH.encode) *)
PublishAllowed(k) == PubCapable /\ k.ps \in {"connecting", "connected"}
Publish(a, x) ==
  /\ conn[a].ps # "none"
  /\ stim' = [op |-> "publish", a |-> a, x |-> x]
  /\ LET k == conn[a]  d == nd + 1  chk == PublishCheck(x)  id == MakeIdFrom(nextId) IN
     /\ nd' = d
     /\ IF ~PublishAllowed(k) THEN
          /\ fx' = <<FireErr(d, "MQTTStateError"), Ret(d, -1)>> /\ UNCHANGED <<nextId, sess, conn, timers, now>>
        ELSE IF chk[1] # "ok" THEN
          /\ fx' = <<FireErr(d, chk[1]), Ret(d, -1)>>
          /\ nextId' = IF chk[2] THEN id ELSE nextId
          /\ UNCHANGED <<sess, conn, timers, now>>
        ELSE
          LET q  == x.qos.v
              pl == PayloadBytes(x.payload)
              r  == [id |-> IF q = 0 THEN 0 ELSE id, qos |-> q, topic |-> x.topic.v, payload |-> pl, retain |-> x.retain,
                     d |-> d, dup |-> 0, n |-> 0, initT |-> k.initT, bw |-> k.bw, factor |-> k.factor,
                     size |-> PubSize(x.topic.v, Len(pl), q), live |-> FALSE]
              rf == DoRefill(Append(sess[a].queue, r), sess[a].pub, timers, a)
          IN
          /\ nextId' = IF q = 0 THEN nextId ELSE id
          /\ SetSess(a, [sess[a] EXCEPT !.queue = rf.q, !.pub = rf.p])
          /\ timers' = rf.tm
          /\ fx' = rf.out \o (IF q = 0 THEN <<FireOk(d, VNone), Ret(d, -1)>> ELSE <<Ret(d, id)>>)
          /\ UNCHANGED <<conn, now>>

-----------------------------------------------------------------------------
(* subscribe() / unsubscribe()  (pubsubs.py doSubscribe / doUnsubscribe / _checkSubscribe / _checkUnsubscribe) *)
SubAllowed(k) == SubCapable /\ k.ps = "connected"
WindowFull(w, k) == IF "window_eq" \in Bugs THEN Len(w) = k.window ELSE Len(w) >= k.window

Subscribe(a, arg, qos) ==
  /\ conn[a].ps # "none"
  /\ stim' = [op |-> "subscribe", a |-> a, arg |-> arg, qos |-> qos]
  /\ LET k == conn[a]  d == nd + 1  nt == SubTopics(arg, qos)  id == MakeIdFrom(nextId)  s == sess[a] IN
     /\ nd' = d
     /\ IF ~SubAllowed(k) THEN
          /\ fx' = <<FireErr(d, "MQTTStateError"), Ret(d, -1)>> /\ UNCHANGED <<nextId, sess, conn, timers, now>>
        ELSE IF WindowFull(s.sub, k) THEN
          /\ fx' = <<FireErr(d, "MQTTWindowError"), Ret(d, -1)>> /\ UNCHANGED <<nextId, sess, conn, timers, now>>
        ELSE IF ~nt.ok THEN
          /\ fx' = <<FireErr(d, nt.cls), Ret(d, -1)>> /\ UNCHANGED <<nextId, sess, conn, timers, now>>
        ELSE IF \E i \in 1..Len(nt.ts) : ~(nt.ts[i][2] \in 0..2) THEN
          /\ fx' = <<FireErr(d, "ValueError"), Ret(d, -1)>> /\ UNCHANGED <<nextId, sess, conn, timers, now>>
        ELSE IF \E i \in 1..Len(nt.ts) : ~TextOK(nt.ts[i][1]) THEN
          \* the identifier has been taken before encode() refuses the topic
          /\ fx' = <<FireErr(d, "ValueError"), Ret(d, -1)>> /\ nextId' = id /\ UNCHANGED <<sess, conn, timers, now>>
        ELSE
          LET r == [id |-> id, topics |-> nt.ts, d |-> d, dup |-> 0, n |-> 1, initT |-> k.initT, live |-> TRUE]
              t == Timer("sub", a, k.g, id, now + SubDelay(1, k.initT, Len(s.sub) + 1), "")
          IN /\ nextId' = id
             /\ SetSess(a, [s EXCEPT !.sub = Append(@, r)])
             /\ timers' = timers \cup {t}
             /\ fx' = <<Arm(t), W(a, k.g, PktSubscribe(r, 0)), Ret(d, id)>>
             /\ UNCHANGED <<conn, now>>

Unsubscribe(a, arg) ==
  /\ conn[a].ps # "none"
  /\ stim' = [op |-> "unsubscribe", a |-> a, arg |-> arg]
  /\ LET k == conn[a]  d == nd + 1  nt == UnsubTopics(arg)  s == sess[a]
         id0 == MakeIdFrom(nextId)            \* doUnsubscribe takes an identifier before checking anything
         id  == MakeIdFrom(id0)
     IN
     /\ nd' = d
     /\ IF ~SubAllowed(k) THEN
          /\ fx' = <<FireErr(d, "MQTTStateError"), Ret(d, -1)>> /\ UNCHANGED <<nextId, sess, conn, timers, now>>
        ELSE IF WindowFull(s.unsub, k) THEN
          /\ fx' = <<FireErr(d, "MQTTWindowError"), Ret(d, -1)>> /\ nextId' = id0 /\ UNCHANGED <<sess, conn, timers, now>>
        ELSE IF ~nt.ok THEN
          /\ fx' = <<FireErr(d, nt.cls), Ret(d, -1)>> /\ nextId' = (IF nt.listOK THEN id ELSE id0) /\ UNCHANGED <<sess, conn, timers, now>>
        ELSE IF \E i \in 1..Len(nt.ts) : ~TextOK(nt.ts[i]) THEN
          /\ fx' = <<FireErr(d, "ValueError"), Ret(d, -1)>> /\ nextId' = id /\ UNCHANGED <<sess, conn, timers, now>>
        ELSE
          LET r == [id |-> id, topics |-> nt.ts, d |-> d, dup |-> 0, n |-> 1, initT |-> k.initT, live |-> TRUE]
              t == Timer("unsub", a, k.g, id, now + SubDelay(1, k.initT, Len(s.unsub) + 1), "")
          IN /\ nextId' = id
             /\ SetSess(a, [s EXCEPT !.unsub = Append(@, r)])
             /\ timers' = timers \cup {t}
             /\ fx' = <<Arm(t), W(a, k.g, PktUnsubscribe(r, 0)), Ret(d, id)>>
             /\ UNCHANGED <<conn, now>>

-----------------------------------------------------------------------------
(* one complete packet from the broker (base._processPacket and the handle* methods) *)
\* which handler the state object of the profile forwards to the protocol
Handles(t, ps) ==
  CASE t = "CONNACK"  -> ps = "connecting"
    [] t = "PINGRESP" -> ps = "connected"
    [] t \in {"PUBACK", "PUBREC", "PUBCOMP"} -> PubCapable /\ ps = "connected"
    [] t \in {"SUBACK", "UNSUBACK", "PUBLISH", "PUBREL"} -> SubCapable /\ ps = "connected"
    [] OTHER -> FALSE

\* re-sending what an earlier connection left unacknowledged (pubsubs._syncSession): releases, publishes,
\* subscriptions, unsubscriptions (each only if it has no retry alarm running on this connection), then refill
Resume(a, k, s, tm0) ==
  LET g == k.g
      d3(dup) == IF k.ver = 3 THEN 1 ELSE IF "sticky_dup" \in Bugs THEN dup ELSE 0     \* 3.1.1: the bit is cleared
      relT(r) == Timer("rel", a, g, r.id, now + IntervalDelay(r.n + 1, r.initT), "")
      pubT(r) == Timer("pub", a, g, r.id, now + PubDelay(r, r.n + 1), "")
      subT(r) == Timer("sub", a, g, r.id, now + SubDelay(r.n + 1, r.initT, Len(s.sub)), "")
      unsT(r) == Timer("unsub", a, g, r.id, now + SubDelay(r.n + 1, r.initT, Len(s.unsub)), "")
      old(rs) == SelectSeq(rs, LAMBDA r : ~r.live)
      outRel == FlattenSeq([i \in 1..Len(old(s.rel)) |-> <<Arm(relT(old(s.rel)[i])), W(a, g, PktPubrel(old(s.rel)[i].id, d3(old(s.rel)[i].dup)))>>])
      outPub == FlattenSeq([i \in 1..Len(old(s.pub)) |-> <<Arm(pubT(old(s.pub)[i])), W(a, g, PktPublish(old(s.pub)[i], 1))>>])
      outSub == IF "no_resubscribe" \in Bugs THEN <<>> ELSE
                FlattenSeq([i \in 1..Len(old(s.sub)) |-> <<Arm(subT(old(s.sub)[i])), W(a, g, PktSubscribe(old(s.sub)[i], d3(old(s.sub)[i].dup)))>>])
      outUns == IF "no_resubscribe" \in Bugs THEN <<>> ELSE
                FlattenSeq([i \in 1..Len(old(s.unsub)) |-> <<Arm(unsT(old(s.unsub)[i])), W(a, g, PktUnsubscribe(old(s.unsub)[i], d3(old(s.unsub)[i].dup)))>>])
      up(rs, dupv(_)) == [i \in 1..Len(rs) |-> IF rs[i].live THEN rs[i] ELSE [rs[i] EXCEPT !.live = TRUE, !.n = @ + 1, !.dup = dupv(rs[i])]]
      tm1 == tm0 \cup {relT(old(s.rel)[i]) : i \in 1..Len(old(s.rel))} \cup {pubT(old(s.pub)[i]) : i \in 1..Len(old(s.pub))}
                 \cup (IF "no_resubscribe" \in Bugs THEN {} ELSE
                       {subT(old(s.sub)[i]) : i \in 1..Len(old(s.sub))} \cup {unsT(old(s.unsub)[i]) : i \in 1..Len(old(s.unsub))})
      s1 == [s EXCEPT !.rel = up(@, LAMBDA r : d3(r.dup)), !.pub = up(@, LAMBDA r : 1),
                      !.sub = IF "no_resubscribe" \in Bugs THEN @ ELSE up(@, LAMBDA r : d3(r.dup)),
                      !.unsub = IF "no_resubscribe" \in Bugs THEN @ ELSE up(@, LAMBDA r : d3(r.dup))]
      rf == IF "no_refill_on_sync" \in Bugs THEN [q |-> s1.queue, p |-> s1.pub, out |-> <<>>, tm |-> tm1]
            ELSE DoRefill(s1.queue, s1.pub, tm1, a)
  IN [s |-> [s1 EXCEPT !.queue = rf.q, !.pub = rf.p], tm |-> rf.tm, out |-> outRel \o outPub \o outSub \o outUns \o rf.out]

HandleCONNACK(a, p) ==
  LET k == conn[a]  ct == TimersOf("connack", a, k.g, k.cd)  tm0 == timers \ ct IN
  IF p.code = 0 THEN
    LET rs == IF k.clean = 1
              THEN (IF "purge_at_connack" \in Bugs
                    THEN [s |-> Purged(sess[a]), tm |-> tm0, out |-> PurgeFx(sess[a], "MQTTSessionCleared")]
                    ELSE [s |-> sess[a], tm |-> tm0, out |-> <<>>])
              ELSE Resume(a, k, sess[a], tm0)
        dl == Timer("pingdl", a, k.g, 0, now + 1024 * k.ka, "")
        lp == Timer("ping", a, k.g, 0, now + 1024 * k.ka, "")
        ping == IF k.ka = 0 THEN <<>> ELSE <<W(a, k.g, [t |-> "PINGREQ"]), Arm(dl), Arm(lp)>>
    IN /\ SetSess(a, rs.s)
       /\ timers' = rs.tm \cup (IF k.ka = 0 THEN {} ELSE {dl, lp})
       /\ SetConn(a, [k EXCEPT !.ps = "connected", !.cd = 0, !.pingAl = IF k.ka = 0 THEN -1 ELSE dl.at])
       /\ fx' = CancelSeq(ct) \o rs.out \o (IF k.hMade = 1 THEN <<Cb(a, "onMqttConnectionMade", <<>>)>> ELSE <<>>)
                \o ping \o <<FireOk(k.cd, VBool(p.session))>>
       /\ UNCHANGED <<nextId, nd, now>>
  ELSE
    /\ timers' = tm0
    /\ SetConn(a, [k EXCEPT !.ps = "idle", !.cd = 0])
    /\ fx' = CancelSeq(ct) \o <<FireErr(k.cd, "MQTTStateError")>>
    /\ UNCHANGED <<nextId, nd, sess, now>>

HandlePINGRESP(a) ==
  LET k == conn[a]  al == {t \in timers : t.kind = "pingdl" /\ t.a = a /\ t.g = k.g /\ t.at = k.pingAl} IN
  /\ fx' = CancelSeq(al) /\ timers' = timers \ al
  /\ SetConn(a, [k EXCEPT !.pingAl = -1])
  /\ UNCHANGED <<nextId, nd, sess, now>>

DeliverArgs(p) == [topic |-> p.topic, payload |-> p.payload, qos |-> p.qos, dup |-> p.dup, retain |-> p.retain, id |-> p.id]
HandlePUBLISH(a, p) ==
  LET k == conn[a]  cb == IF k.hPub = 1 THEN <<Cb(a, "onPublish", DeliverArgs(p))>> ELSE <<>> IN
  /\ CASE p.qos = 0 -> fx' = cb /\ UNCHANGED sess
       [] p.qos = 1 -> fx' = <<W(a, k.g, PktAck("PUBACK", p.id))>> \o cb /\ UNCHANGED sess
       [] p.qos = 2 -> /\ fx' = <<W(a, k.g, PktAck("PUBREC", p.id))>>
                       /\ SetSess(a, [sess[a] EXCEPT !.rx = Put(@, [id |-> p.id, msg |-> DeliverArgs(p)])])
       [] OTHER     -> fx' = <<>> /\ UNCHANGED sess          \* both QoS bits set: dropped without any reaction
  /\ UNCHANGED <<nextId, nd, conn, timers, now>>

HandlePUBREL(a, p) ==
  LET k == conn[a]  s == sess[a] IN
  /\ IF Has(s.rx, p.id)
     THEN \* PUBCOMP first, the held message is delivered last (the application may disconnect() from its handler)
          /\ fx' = <<W(a, k.g, PktAck("PUBCOMP", p.id))>> \o (IF k.hPub = 1 THEN <<Cb(a, "onPublish", s.rx[Pos(s.rx, p.id)].msg)>> ELSE <<>>)
          /\ SetSess(a, [s EXCEPT !.rx = Drop(@, p.id)])
     ELSE /\ fx' = IF "pubrel_repeat_no_pubcomp" \in Bugs THEN <<>> ELSE <<W(a, k.g, PktAck("PUBCOMP", p.id))>>
          /\ UNCHANGED sess
  /\ UNCHANGED <<nextId, nd, conn, timers, now>>

HandlePUBACK(a, p) ==
  LET s == sess[a]  k == conn[a] IN
  IF Has(s.pub, p.id)
  THEN LET r == s.pub[Pos(s.pub, p.id)]  ct == TimersOf("pub", a, k.g, p.id)
           rf == DoRefill(s.queue, Drop(s.pub, p.id), timers \ ct, a)
       IN /\ SetSess(a, [s EXCEPT !.queue = rf.q, !.pub = rf.p]) /\ timers' = rf.tm
          /\ fx' = CancelSeq(ct) \o <<FireOk(r.d, VInt(r.id))>> \o rf.out
          /\ UNCHANGED <<nextId, nd, conn, now>>
  ELSE fx' = <<>> /\ UNCHANGED sv

HandlePUBREC(a, p) ==
  LET s == sess[a]  k == conn[a] IN
  IF Has(s.pub, p.id)
  THEN LET r == s.pub[Pos(s.pub, p.id)]  ct == TimersOf("pub", a, k.g, p.id)
           rr == [id |-> r.id, d |-> r.d, dup |-> 0, n |-> 1, initT |-> k.initT, live |-> TRUE]
           t  == Timer("rel", a, k.g, r.id, now + IntervalDelay(1, k.initT), "")
       IN /\ SetSess(a, [s EXCEPT !.pub = Drop(@, p.id), !.rel = Put(@, rr)])
          /\ timers' = (timers \ ct) \cup {t}
          /\ fx' = CancelSeq(ct) \o <<Arm(t), W(a, k.g, PktPubrel(r.id, 0))>>
          /\ UNCHANGED <<nextId, nd, conn, now>>
  ELSE IF "pubrec_repeat_resends" \in Bugs /\ Has(s.rel, p.id)
  THEN \* (mutant) a repeated PUBREC re-sends the PUBREL at once and arms another timer beside the one that runs
       LET r == s.rel[Pos(s.rel, p.id)]
           t == Timer("rel", a, k.g, r.id, now + IntervalDelay(r.n + 1, r.initT) + 1, "")
       IN /\ timers' = timers \cup {t} /\ fx' = <<Arm(t), W(a, k.g, PktPubrel(r.id, IF k.ver = 3 THEN 1 ELSE 0))>>
          /\ UNCHANGED <<nextId, nd, sess, conn, now>>
  ELSE fx' = <<>> /\ UNCHANGED sv

HandlePUBCOMP(a, p) ==
  LET s == sess[a]  k == conn[a] IN
  IF Has(s.rel, p.id)
  THEN LET r == s.rel[Pos(s.rel, p.id)]  ct == TimersOf("rel", a, k.g, p.id)
           rf == DoRefill(s.queue, s.pub, timers \ ct, a)
       IN /\ SetSess(a, [s EXCEPT !.queue = rf.q, !.pub = rf.p, !.rel = Drop(@, p.id)]) /\ timers' = rf.tm
          /\ fx' = CancelSeq(ct) \o <<FireOk(r.d, VInt(r.id))>> \o rf.out
          /\ UNCHANGED <<nextId, nd, conn, now>>
  ELSE fx' = <<>> /\ UNCHANGED sv

HandleSUBACK(a, p) ==
  LET s == sess[a]  k == conn[a] IN
  IF Has(s.sub, p.id)
  THEN LET r == s.sub[Pos(s.sub, p.id)]  ct == TimersOf("sub", a, k.g, p.id) IN
       /\ SetSess(a, [s EXCEPT !.sub = Drop(@, p.id)]) /\ timers' = timers \ ct
       /\ fx' = CancelSeq(ct) \o <<FireOk(r.d, VGranted(p.granted))>>
       /\ UNCHANGED <<nextId, nd, conn, now>>
  ELSE fx' = <<>> /\ UNCHANGED sv

HandleUNSUBACK(a, p) ==
  LET s == sess[a]  k == conn[a] IN
  IF Has(s.unsub, p.id)
  THEN LET r == s.unsub[Pos(s.unsub, p.id)]  ct == TimersOf("unsub", a, k.g, p.id) IN
       /\ SetSess(a, [s EXCEPT !.unsub = Drop(@, p.id)]) /\ timers' = timers \ ct
       /\ fx' = CancelSeq(ct) \o <<FireOk(r.d, VInt(r.id))>>
       /\ UNCHANGED <<nextId, nd, conn, now>>
  ELSE fx' = <<>> /\ UNCHANGED sv

AbortTr(k) == [k EXCEPT !.tr = IF @ \in {"open", "closing"} THEN "aborted" ELSE @]
\* p is a decoded packet, or [t |-> "malformed"] for anything the protocol cannot decode / does not know
Deliver(a, p) ==
  \* (A2: the environment delivers no further chunk after an abort or a loss; the packets of the chunk being processed
  \*  when the abort happens are still handled, so the transport phase is not a guard here but in the instances)
  /\ conn[a].ps # "none" /\ conn[a].tr # "lost"
  /\ stim' = [op |-> "recv", a |-> a, p |-> p]
  /\ IF p.t \in {"malformed", "CONNECT", "SUBSCRIBE", "UNSUBSCRIBE", "PINGREQ", "DISCONNECT"} THEN
       /\ fx' = <<Close(a, conn[a].g, "abort")>>
       /\ SetConn(a, AbortTr(conn[a]))
       /\ UNCHANGED <<nextId, nd, sess, timers, now>>
     ELSE IF ~Handles(p.t, conn[a].ps) THEN fx' = <<>> /\ UNCHANGED sv
     ELSE CASE p.t = "CONNACK"  -> HandleCONNACK(a, p)
            [] p.t = "PINGRESP" -> HandlePINGRESP(a)
            [] p.t = "PUBLISH"  -> HandlePUBLISH(a, p)
            [] p.t = "PUBREL"   -> HandlePUBREL(a, p)
            [] p.t = "PUBACK"   -> HandlePUBACK(a, p)
            [] p.t = "PUBREC"   -> HandlePUBREC(a, p)
            [] p.t = "PUBCOMP"  -> HandlePUBCOMP(a, p)
            [] p.t = "SUBACK"   -> HandleSUBACK(a, p)
            [] p.t = "UNSUBACK" -> HandleUNSUBACK(a, p)

-----------------------------------------------------------------------------
(* a pending call runs: only one with the earliest deadline may (ideal reactor, A3) *)
MinAt == IF timers = {} THEN 0 ELSE CHOOSE m \in {t.at : t \in timers} : \A t \in timers : m <= t.at

FireTimer(tm) ==
  /\ tm \in timers /\ tm.at = MinAt
  /\ now' = tm.at
  /\ stim' = [op |-> "fire", tm |-> tm]
  /\ LET a == tm.a  k == conn[a]  s == sess[a]  rest == timers \ {tm}  g == tm.g IN
     CASE tm.kind = "connack" ->       \* doConnect.connectError
            /\ fx' = <<FireErr(tm.id, "MQTTTimeoutError"), Close(a, g, "abort")>>
            /\ timers' = rest
            /\ SetConn(a, IF k.g = g THEN [AbortTr(k) EXCEPT !.cd = IF @ = tm.id THEN 0 ELSE @] ELSE k)
            /\ UNCHANGED <<nextId, nd, sess>>
       [] tm.kind = "ping" ->          \* LoopingCall -> ping() -> state.ping() -> doPingRequest
            LET dl == Timer("pingdl", a, g, 0, tm.at + 1024 * k.ka, "")
                lp == Timer("ping", a, g, 0, tm.at + 1024 * k.ka, "")
                old == {t \in timers : t.kind = "pingdl" /\ t.a = a /\ t.g = g /\ t.at = k.pingAl} IN
            IF old # {} /\ ~("ping_overwrites_alarm" \in Bugs)
            THEN \* the previous PINGREQ is still unanswered: same as its timeout (doPingError), the loop ends
                 /\ fx' = CancelSeq(old) \o <<Close(a, g, "abort")>>
                 /\ timers' = rest \ old
                 /\ SetConn(a, [AbortTr(k) EXCEPT !.pingAl = -1])
                 /\ UNCHANGED <<nextId, nd, sess>>
            ELSE /\ fx' = <<W(a, g, [t |-> "PINGREQ"]), [Arm(dl) EXCEPT !.delay = 1024 * k.ka], [Arm(lp) EXCEPT !.delay = 1024 * k.ka]>>
                 /\ timers' = rest \cup {dl, lp}
                 /\ SetConn(a, [k EXCEPT !.pingAl = dl.at])
                 /\ UNCHANGED <<nextId, nd, sess>>
       [] tm.kind = "pingdl" ->        \* doPingRequest.doPingError: stop the keepalive, abort
            LET loop == {t \in timers : t.kind = "ping" /\ t.a = a /\ t.g = g} IN
            /\ fx' = (IF "ping_overwrites_alarm" \in Bugs THEN <<>> ELSE CancelSeq(loop)) \o <<Close(a, g, "abort")>>
            /\ timers' = IF "ping_overwrites_alarm" \in Bugs THEN rest ELSE rest \ loop
            /\ SetConn(a, IF k.g = g THEN [AbortTr(k) EXCEPT !.pingAl = IF "ping_overwrites_alarm" \in Bugs THEN @ ELSE -1] ELSE k)
            /\ UNCHANGED <<nextId, nd, sess>>
       [] tm.kind = "pub" ->           \* _publishError -> _retryPublish(dup=True)
            IF ~Has(s.pub, tm.id) THEN FALSE ELSE
            LET i == Pos(s.pub, tm.id)  r == s.pub[i]
                t == Timer("pub", a, g, r.id, tm.at + PubDelay(r, r.n + 1), "") IN
            /\ fx' = <<[Arm(t) EXCEPT !.delay = PubDelay(r, r.n + 1)], W(a, g, PktPublish(r, 1))>>
            /\ timers' = rest \cup {t}
            /\ SetSess(a, [s EXCEPT !.pub[i].n = @ + 1, !.pub[i].dup = 1])
            /\ UNCHANGED <<nextId, nd, conn>>
       [] tm.kind = "rel" ->           \* _pubrelError -> _retryRelease(dup=True)
            IF ~Has(s.rel, tm.id) THEN FALSE ELSE
            LET i == Pos(s.rel, tm.id)  r == s.rel[i]  dup == IF k.ver = 3 THEN 1 ELSE IF "sticky_dup" \in Bugs THEN r.dup ELSE 0
                t == Timer("rel", a, g, r.id, tm.at + IntervalDelay(r.n + 1, r.initT), "") IN
            /\ fx' = <<[Arm(t) EXCEPT !.delay = IntervalDelay(r.n + 1, r.initT)], W(a, g, PktPubrel(r.id, dup))>>
            /\ timers' = rest \cup {t}
            /\ SetSess(a, [s EXCEPT !.rel[i].n = @ + 1, !.rel[i].dup = dup])
            /\ UNCHANGED <<nextId, nd, conn>>
       [] tm.kind = "sub" ->           \* _subscribeError -> _retrySubscribe(dup=True)
            IF ~Has(s.sub, tm.id) THEN FALSE ELSE
            LET i == Pos(s.sub, tm.id)  r == s.sub[i]  dup == IF k.ver = 3 THEN 1 ELSE IF "sticky_dup" \in Bugs THEN r.dup ELSE 0
                dly == SubDelay(r.n + 1, r.initT, Len(s.sub))
                t == Timer("sub", a, g, r.id, tm.at + dly, "") IN
            /\ fx' = <<[Arm(t) EXCEPT !.delay = dly], W(a, g, PktSubscribe(r, dup))>>
            /\ timers' = rest \cup {t}
            /\ SetSess(a, [s EXCEPT !.sub[i].n = @ + 1, !.sub[i].dup = dup])
            /\ UNCHANGED <<nextId, nd, conn>>
       [] tm.kind = "unsub" ->         \* _unsubscribeError -> _retryUnsubscribe(dup=True)
            IF ~Has(s.unsub, tm.id) THEN FALSE ELSE
            LET i == Pos(s.unsub, tm.id)  r == s.unsub[i]  dup == IF k.ver = 3 THEN 1 ELSE IF "sticky_dup" \in Bugs THEN r.dup ELSE 0
                dly == SubDelay(r.n + 1, r.initT, Len(s.unsub))
                t == Timer("unsub", a, g, r.id, tm.at + dly, "") IN
            /\ fx' = <<[Arm(t) EXCEPT !.delay = dly], W(a, g, PktUnsubscribe(r, dup))>>
            /\ timers' = rest \cup {t}
            /\ SetSess(a, [s EXCEPT !.unsub[i].n = @ + 1, !.unsub[i].dup = dup])
            /\ UNCHANGED <<nextId, nd, conn>>
       [] tm.kind = "disc" ->          \* the application's onDisconnection(reason)
            /\ fx' = <<Cb(a, "onDisconnection", [reason |-> tm.x, g |-> g])>>
            /\ timers' = rest
            /\ UNCHANGED <<nextId, nd, sess, conn>>

-----------------------------------------------------------------------------
(* the transport reports the loss (base.connectionLost, pubsubs.doConnectionLost) *)
Lost(a, reason) ==
  /\ conn[a].tr \in {"open", "closing", "aborted"}
  /\ stim' = [op |-> "lost", a |-> a, reason |-> reason]
  /\ LET k == conn[a]  s == sess[a]
         kt == KeepaliveTimers(a, k) \o LiveTimers(a, k.g, s)
         dt == Timer("disc", a, k.g, 0, now + DiscDelay, reason)
         s1 == AllUnlive(s)
     IN
     /\ timers' = (timers \ SeqToSet(kt)) \cup (IF k.hDisc = 1 THEN {dt} ELSE {})
     /\ SetSess(a, IF k.clean = 1 THEN Purged(s1) ELSE s1)
     /\ SetConn(a, [k EXCEPT !.ps = "idle", !.tr = "lost", !.pingAl = -1])
     /\ fx' = [i \in 1..Len(kt) |-> Cancel(kt[i])] \o (IF k.clean = 1 THEN PurgeFx(s1, reason) ELSE <<>>)
              \o (IF k.hDisc = 1 THEN <<Arm(dt)>> ELSE <<>>)
     /\ UNCHANGED <<nextId, nd, now>>

\* test-only: the harness places the identifier counter (C17: "started with the counter shortly before the wrap")
PokeId(n) ==
  /\ nextId' = n
  /\ stim' = [op |-> "pokeid", v |-> n] /\ fx' = <<>>
  /\ UNCHANGED <<nd, sess, conn, timers, now>>

Idle(dt) ==
  /\ dt > 0 /\ (IF timers = {} THEN TRUE ELSE now + dt <= MinAt)
  /\ now' = now + dt
  /\ stim' = [op |-> "idle", dt |-> dt] /\ fx' = <<>>
  /\ UNCHANGED <<nextId, nd, sess, conn, timers>>

=============================================================================
