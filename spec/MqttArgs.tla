------------------------------ MODULE MqttArgs ------------------------------
(* Argument validation of the API entry points, in the order the code         *)
(* performs its checks (base._checkConnect, pubsubs._checkPublish /           *)
(* _checkSubscribe / _checkUnsubscribe and the encoders in pdu.py).           *)
(* Arguments are in the trace encoding: a record with ty in                  *)
(* int/str/none/bytes/pair/list/... and, where meaningful, v.                *)
(* Shared by the client specification and by the property automata.          *)
EXTENDS MqttCodec

IsInt(x) == x.ty = "int"
SetCheck(what, v, v2) ==
  CASE what = "window"   -> IF ~IsInt(v) THEN "TypeError" ELSE IF v.v \in 1..16 THEN "ok" ELSE "ValueError"
    [] what = "timeout"  -> IF ~IsInt(v) THEN "TypeError" ELSE IF v.v \in 1..1024 THEN "ok" ELSE "ValueError"
    [] what = "bandwith" -> IF ~IsInt(v) \/ ~(v2.ty \in {"int", "none"}) THEN "TypeError"
                            ELSE IF v.v <= 0 \/ (IsInt(v2) /\ v2.v <= 0) THEN "ValueError" ELSE "ok"
    [] OTHER -> "ok"

IsStr(x)  == x.ty = "str"
IsNone(x) == x.ty = "none"
StrOK(x)  == TextOK(x.v)
\* "ok", or the class of the refusal in the order the code performs its checks
ConnectCheck(c) ==
  IF ~IsInt(c.wqos) THEN "TypeError" ELSE IF ~(c.wqos.v \in 0..2) THEN "ValueError"
  ELSE IF ~IsInt(c.ka) THEN "TypeError" ELSE IF ~(c.ka.v \in 0..65535) THEN "ValueError"
  ELSE IF c.ver = 3 /\ ~IsStr(c.cid) THEN "TypeError"
  ELSE IF c.ver = 3 /\ Len(c.cid.v) > 23 THEN "ValueError"
  ELSE IF ~(c.ver \in {3, 4}) THEN "ValueError"
  ELSE IF ~IsNone(c.wmsg) /\ IsNone(c.wtopic) THEN "ValueError"
  ELSE IF IsNone(c.wmsg) /\ ~IsNone(c.wtopic) THEN "ValueError"
  ELSE IF IsNone(c.uname) /\ ~IsNone(c.pwd) THEN "ValueError"
  \* encode(): client id, will topic, will message, user name, password, in this order
  ELSE IF ~IsStr(c.cid) THEN "TypeError" ELSE IF ~StrOK(c.cid) THEN "ValueError"
  ELSE IF ~IsNone(c.wtopic) /\ ~IsStr(c.wtopic) THEN "TypeError"
  ELSE IF ~IsNone(c.wtopic) /\ ~StrOK(c.wtopic) THEN "ValueError"
  ELSE IF ~IsNone(c.wmsg) /\ ~IsStr(c.wmsg) THEN "TypeError"
  ELSE IF ~IsNone(c.wmsg) /\ ~StrOK(c.wmsg) THEN "ValueError"
  ELSE IF ~IsNone(c.uname) /\ ~IsStr(c.uname) THEN "TypeError"
  ELSE IF ~IsNone(c.uname) /\ ~StrOK(c.uname) THEN "ValueError"
  ELSE IF ~IsNone(c.pwd) /\ ~IsStr(c.pwd) THEN "TypeError"
  ELSE IF ~IsNone(c.pwd) /\ ~StrOK(c.pwd) THEN "ValueError"
  ELSE "ok"
PktConnect(c) ==
  LET will == IF IsNone(c.wtopic) THEN 0 ELSE 1  user == IF IsNone(c.uname) THEN 0 ELSE 1  pass == IF IsNone(c.pwd) THEN 0 ELSE 1 IN
  [t |-> "CONNECT", ver |-> c.ver, clean |-> c.clean, ka |-> c.ka.v, cid |-> c.cid.v, will |-> will,
   wtopic |-> IF will = 1 THEN c.wtopic.v ELSE <<>>, wmsg |-> IF will = 1 THEN c.wmsg.v ELSE <<>>,
   wqos |-> IF will = 1 THEN c.wqos.v ELSE 0, wretain |-> IF will = 1 THEN c.wretain ELSE 0,
   user |-> user, uname |-> IF user = 1 THEN c.uname.v ELSE <<>>, pass |-> pass, pwd |-> IF pass = 1 THEN Utf8Str(c.pwd.v) ELSE <<>>]


PayloadBytes(pl) == IF pl.ty = "str" THEN Utf8Str(pl.v) ELSE pl.v
\* <<class, identifier consumed>>
PublishCheck(x) ==
  IF ~IsInt(x.qos) THEN <<"TypeError", FALSE>>
  ELSE IF ~(x.qos.v \in 0..2) THEN <<"ValueError", FALSE>>
  ELSE IF ~IsStr(x.topic) THEN <<"TypeError", x.qos.v > 0>>
  ELSE IF ~StrOK(x.topic) THEN <<"ValueError", x.qos.v > 0>>
  ELSE IF ~(x.payload.ty \in {"str", "bytes"}) THEN <<"TypeError", x.qos.v > 0>>
  ELSE IF x.payload.ty = "str" /\ \E i \in 1..Len(x.payload.v) : ~IsScalar(x.payload.v[i]) THEN <<"ValueError", x.qos.v > 0>>
  ELSE <<"ok", x.qos.v > 0>>


\* normalisation of the topic argument: a text with the qos argument, a (text, qos) pair, or a list
\* the first list item the check loop of _checkSubscribe stumbles over decides the class of the refusal:
\* "for (topic, qos) in topics: if not 0 <= qos < 3" - a pair with a bad QoS gives ValueError, a text that does not
\* unpack into two items ValueError, anything else TypeError
SubItemBad(x) == IF x.ty = "pair" THEN ~(x.q \in 0..2) ELSE TRUE
SubItemCls(x) == IF x.ty = "pair" THEN "ValueError" ELSE IF x.ty = "str" /\ Len(x.v) # 2 THEN "ValueError" ELSE "TypeError"
SubTopics(arg, qos) ==
  CASE arg.ty = "str"  -> [ok |-> IsInt(qos), ts |-> <<<<arg.v, IF IsInt(qos) THEN qos.v ELSE 0>>>>, cls |-> "TypeError"]
    [] arg.ty = "pair" -> [ok |-> TRUE, ts |-> <<<<arg.t, arg.q>>>>, cls |-> ""]
    [] arg.ty = "list" -> IF arg.items = <<>>          \* a SUBSCRIBE without a topic filter is no packet at all [MQTT-3.8.3-3]
                          THEN [ok |-> FALSE, ts |-> <<>>, cls |-> "ValueError"]
                          ELSE IF \A i \in 1..Len(arg.items) : arg.items[i].ty = "pair"
                          THEN [ok |-> TRUE, ts |-> [i \in 1..Len(arg.items) |-> <<arg.items[i].t, arg.items[i].q>>], cls |-> ""]
                          ELSE LET bad == SelectSeq(arg.items, SubItemBad) IN
                               [ok |-> FALSE, ts |-> <<>>, cls |-> SubItemCls(bad[1])]
    [] OTHER -> [ok |-> FALSE, ts |-> <<>>, cls |-> "TypeError"]
\* listOK: the argument passes _checkUnsubscribe (it is a list after normalisation); a list with items that are not texts
\* is refused only by encode(), after the second identifier has been taken
\* (an empty list is refused by the check as well - ValueError, [MQTT-3.10.3-2] - i.e. before the second identifier)
UnsubTopics(arg) ==
  CASE arg.ty = "str"  -> [ok |-> TRUE, ts |-> <<arg.v>>, listOK |-> TRUE, cls |-> ""]
    [] arg.ty = "list" -> IF arg.items = <<>>
                          THEN [ok |-> FALSE, ts |-> <<>>, listOK |-> FALSE, cls |-> "ValueError"]
                          ELSE IF \A i \in 1..Len(arg.items) : arg.items[i].ty = "str"
                          THEN [ok |-> TRUE, ts |-> [i \in 1..Len(arg.items) |-> arg.items[i].v], listOK |-> TRUE, cls |-> ""]
                          ELSE [ok |-> FALSE, ts |-> <<>>, listOK |-> TRUE, cls |-> "TypeError"]
    [] OTHER -> [ok |-> FALSE, ts |-> <<>>, listOK |-> FALSE, cls |-> "TypeError"]

=============================================================================
