CONSTANT Prop = "C08"
INIT MInit
NEXT MNext
CHECK_DEADLOCK FALSE
