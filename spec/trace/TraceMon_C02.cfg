CONSTANT Prop = "C02"
INIT MInit
NEXT MNext
CHECK_DEADLOCK FALSE
