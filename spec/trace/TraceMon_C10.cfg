CONSTANT Prop = "C10"
INIT MInit
NEXT MNext
CHECK_DEADLOCK FALSE
