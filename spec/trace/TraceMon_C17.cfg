CONSTANT Prop = "C17"
INIT MInit
NEXT MNext
CHECK_DEADLOCK FALSE
