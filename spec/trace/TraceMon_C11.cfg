CONSTANT Prop = "C11"
INIT MInit
NEXT MNext
CHECK_DEADLOCK FALSE
