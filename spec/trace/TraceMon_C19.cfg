CONSTANT Prop = "C19"
INIT MInit
NEXT MNext
CHECK_DEADLOCK FALSE
