CONSTANT Prop = "C20"
INIT MInit
NEXT MNext
CHECK_DEADLOCK FALSE
