CONSTANT Prop = "C09"
INIT MInit
NEXT MNext
CHECK_DEADLOCK FALSE
