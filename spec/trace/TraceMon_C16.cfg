CONSTANT Prop = "C16"
INIT MInit
NEXT MNext
CHECK_DEADLOCK FALSE
