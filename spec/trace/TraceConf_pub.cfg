CONSTANTS
  Addr = {"A", "B"}
  Profile = "pub"
  MaxId = 65535
  Bugs = {}
INIT TInit
NEXT TNext
CHECK_DEADLOCK FALSE
