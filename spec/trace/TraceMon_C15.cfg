CONSTANT Prop = "C15"
INIT MInit
NEXT MNext
CHECK_DEADLOCK FALSE
