------------------------------ MODULE TraceConf ------------------------------
(* Conformance (U2): a recorded execution of the real classes must be a      *)
(* behaviour of MqttClient - same effects in the same order (bytes compared   *)
(* with Encode of the specification's packet), same timer delays, same        *)
(* Deferred outcomes, same protocol.state, same pending deadlines, same       *)
(* clock.  Total: every trace ends with one ACCEPT or one REJECT line that    *)
(* names the first diverging step and shows both sides.                       *)
EXTENDS MqttClient, MqttFraming, Json, IOUtils

T   == ndJsonDeserialize(IOEnv.TRACE_FILE)
Idx == JsonDeserialize(IOEnv.INDEX_FILE)       \* sequence of <<first line, last line>> per trace

VARIABLES tid, l, verdict,
          hmap,      \* harness timer handle -> timer of the specification
          rbuf,      \* per address: bytes received and not yet framed (protocol._buffer)
          todo, acc  \* packets of the current chunk still to deliver / effects accumulated for the current line
tvars == <<vars, tid, l, verdict, hmap, rbuf, todo, acc>>

Line    == T[l]
HasLine == l <= Idx[tid][2]

PsName == [none |-> "none", idle |-> "IdleState", connecting |-> "ConnectingState", connected |-> "ConnectedState",
           disconnecting |-> "BaseState"]
LogExc(e) == IF e.base # "other" THEN e.base ELSE e.exc
TimerKey(t) == [kind |-> t.kind, a |-> t.a, g |-> t.g, id |-> t.id, at |-> t.at]

\* does logged effect le show specification effect se ?
Same(se, le) ==
  /\ se.k = le.k
  /\ CASE se.k = "write"  -> le.c[1] = se.a /\ le.c[2] = se.g /\ le.bytes = Encode(se.p)
       [] se.k = "arm"    -> le.delay = se.delay
       [] se.k = "cancel" -> le.tm \in DOMAIN hmap /\ hmap[le.tm] = [kind |-> se.kind, a |-> se.a, g |-> se.g, id |-> se.id, at |-> se.at]
       [] se.k = "fire"   -> le.d = se.d /\ le.ok = se.ok /\ (IF se.ok = 1 THEN le.val = se.val ELSE LogExc(le) = se.exc)
       [] se.k = "cb"     -> /\ le.name = se.name /\ le.a = se.a
                             /\ CASE se.name = "onPublish" -> /\ le.topic = se.args.topic /\ le.payload = se.args.payload /\ le.qos = se.args.qos
                                                              /\ le.dup = se.args.dup /\ le.retain = se.args.retain /\ le.id = se.args.id
                                  [] se.name = "onDisconnection" -> le.reason = se.args.reason /\ le.g = se.args.g
                                  [] OTHER -> TRUE
       [] se.k = "close"  -> le.c[1] = se.a /\ le.c[2] = se.g /\ le.how = se.how
       [] se.k = "ret"    -> le.d = se.d /\ le.mid = se.mid
       [] se.k = "raise"  -> LogExc(le) = se.exc
       [] OTHER -> FALSE

FxMatch(sfx, lfx) == Len(sfx) = Len(lfx) /\ \A i \in 1..Len(sfx) : Same(sfx[i], lfx[i])

PendingD == {t.id : t \in {x \in timers' : x.kind = "connack"}}
            \cup UNION {{r.d : r \in SeqToSet(QosPos(sess'[a].queue)) \cup SeqToSet(sess'[a].pub) \cup SeqToSet(sess'[a].rel)
                                       \cup SeqToSet(sess'[a].sub) \cup SeqToSet(sess'[a].unsub)} : a \in Addr}
AtsOf(tm) == SortSeq(SetToSeq({<<t.at, t.kind, t.a, t.g, t.id>> : t \in tm}), LAMBDA x, y : x[1] < y[1])
PostMatch ==
  /\ \A a \in Addr : a \in DOMAIN Line.post.state => PsName[conn'[a].ps] = Line.post.state[a]
  /\ [i \in 1..Len(AtsOf(timers')) |-> AtsOf(timers')[i][1]] = Line.post.timers
  /\ now' = Line.t
  /\ PendingD = SeqToSet(Line.post.pending)

\* new handles: the arm effects of the specification and of the log, pairwise
NewHandles(sfx, lfx) ==
  LET idx == SelectSeq([i \in 1..Len(sfx) |-> i], LAMBDA i : sfx[i].k = "arm") IN
  [h \in {lfx[idx[j]].tm : j \in 1..Len(idx)} |->
     LET j == CHOOSE j \in 1..Len(idx) : lfx[idx[j]].tm = h  se == sfx[idx[j]] IN
     [kind |-> se.kind, a |-> se.a, g |-> se.g, id |-> se.id, at |-> Line.t + se.delay]]

ConnArgs(s) == [cid |-> s.cid, ka |-> s.ka, clean |-> s.clean, ver |-> s.ver, wtopic |-> s.wtopic, wmsg |-> s.wmsg,
                wqos |-> s.wqos, wretain |-> s.wretain, uname |-> s.uname, pwd |-> s.pwd]
Packet(b, a) == LET d == DecodeLenient(b, conn[a].ver) IN IF IsBad(d) THEN [t |-> "malformed"] ELSE d

\* the specification step a (non-recv) line stands for
SpecStep ==
  LET s == Line.stim IN
  CASE s.op = "build"       -> Build(s.a)
    [] s.op = "set"         -> Set(s.a, s.what, s.v, s.v2)
    [] s.op = "connect"     -> Connect(s.a, ConnArgs(s))
    [] s.op = "disconnect"  -> Disconnect(s.a)
    [] s.op = "publish"     -> Publish(s.a, [topic |-> s.topic, payload |-> s.payload, qos |-> s.qos, retain |-> s.retain])
    [] s.op = "subscribe"   -> Subscribe(s.a, s.arg, s.qos)
    [] s.op = "unsubscribe" -> Unsubscribe(s.a, s.arg)
    [] s.op = "fire"        -> s.tm \in DOMAIN hmap /\ \E tm \in timers : TimerKey(tm) = hmap[s.tm] /\ FireTimer(tm)
    [] s.op = "idle"        -> Idle(s.dt)
    [] s.op = "pokeid"      -> PokeId(s.v)
    [] s.op = "lost"        -> Lost(s.a, s.reason)
    [] OTHER -> FALSE

Show(sfx) == [i \in 1..Len(sfx) |->
                CASE sfx[i].k = "write" -> <<"write", sfx[i].p.t, IF "id" \in DOMAIN sfx[i].p THEN sfx[i].p.id ELSE 0, IF "dup" \in DOMAIN sfx[i].p THEN sfx[i].p.dup ELSE 0>>
                  [] sfx[i].k = "arm" -> <<"arm", sfx[i].kind, sfx[i].id, sfx[i].delay>>
                  [] sfx[i].k = "cancel" -> <<"cancel", sfx[i].kind, sfx[i].id>>
                  [] sfx[i].k = "fire" -> <<"fire", sfx[i].d, sfx[i].ok, IF sfx[i].ok = 1 THEN sfx[i].val ELSE sfx[i].exc>>
                  [] sfx[i].k = "cb" -> <<"cb", sfx[i].name>>
                  [] sfx[i].k = "close" -> <<"close", sfx[i].how>>
                  [] sfx[i].k = "ret" -> <<"ret", sfx[i].d, sfx[i].mid>>
                  [] OTHER -> <<sfx[i].k, sfx[i].exc>>]
ShowLog(lfx) == [i \in 1..Len(lfx) |->
                CASE lfx[i].k = "write" -> <<"write", lfx[i].bytes[1], Len(lfx[i].bytes)>>
                  [] lfx[i].k = "arm" -> <<"arm", lfx[i].label.fn, lfx[i].label.id, lfx[i].delay>>
                  [] lfx[i].k = "cancel" -> <<"cancel", IF lfx[i].tm \in DOMAIN hmap THEN hmap[lfx[i].tm].kind ELSE "?", IF lfx[i].tm \in DOMAIN hmap THEN hmap[lfx[i].tm].id ELSE 0>>
                  [] lfx[i].k = "fire" -> <<"fire", lfx[i].d, lfx[i].ok, IF lfx[i].ok = 1 THEN lfx[i].val ELSE LogExc(lfx[i])>>
                  [] lfx[i].k = "cb" -> <<"cb", lfx[i].name>>
                  [] lfx[i].k = "close" -> <<"close", lfx[i].how>>
                  [] lfx[i].k = "ret" -> <<"ret", lfx[i].d, lfx[i].mid>>
                  [] OTHER -> <<lfx[i].k, LogExc(lfx[i])>>]

Finish(sfx) ==
  IF FxMatch(sfx, Line.fx) /\ PostMatch
  THEN /\ l' = l + 1 /\ verdict' = "run"
       /\ hmap' = NewHandles(sfx, Line.fx) @@ hmap
  ELSE /\ l' = l /\ verdict' = "reject" /\ hmap' = hmap
       /\ PrintT(<<"REJECT", tid, Line.n, Line.stim.op, IF FxMatch(sfx, Line.fx) THEN "post" ELSE "fx",
                   Show(sfx), ShowLog(Line.fx), [i \in 1..Len(AtsOf(timers')) |-> AtsOf(timers')[i]], Line.post>>)

TInit == /\ Init /\ tid \in 1..Len(Idx) /\ l = Idx[tid][1] /\ verdict = "run" /\ hmap = <<>>
         /\ rbuf = [a \in Addr |-> <<>>] /\ todo = <<>> /\ acc = <<>>

Accept == /\ ~HasLine /\ verdict' = "accept" /\ PrintT(<<"ACCEPT", tid, l - Idx[tid][1]>>)
          /\ UNCHANGED <<vars, tid, l, hmap, rbuf, todo, acc>>

\* a line other than recv: one specification step
Step == /\ HasLine /\ Line.stim.op # "recv" /\ todo = <<>>
        /\ SpecStep /\ Finish(fx')
        /\ (Line.stim.op = "build" => rbuf' = [rbuf EXCEPT ![Line.stim.a] = <<>>])
        /\ (Line.stim.op # "build" => UNCHANGED rbuf)
        /\ UNCHANGED <<tid, todo, acc>>

\* a recv line: the chunk is appended to the buffer, the complete packets are delivered one by one
RecvBegin == /\ HasLine /\ Line.stim.op = "recv" /\ todo = <<>>
             /\ LET a == Line.stim.a  f == Frame(rbuf[a] \o Line.stim.bytes) IN
                /\ rbuf' = [rbuf EXCEPT ![a] = f.rest]
                /\ IF f.pkts = <<>>
                   THEN /\ UNCHANGED <<todo, acc>> /\ fx' = <<>> /\ stim' = [op |-> "recv", a |-> a, p |-> [t |-> "none"]]
                        /\ UNCHANGED sv /\ Finish(<<>>)
                   ELSE /\ todo' = f.pkts /\ acc' = <<>> /\ UNCHANGED <<vars, l, verdict, hmap>>
             /\ UNCHANGED tid
RecvDeliver == /\ HasLine /\ Line.stim.op = "recv" /\ todo # <<>>
               /\ Deliver(Line.stim.a, Packet(Head(todo), Line.stim.a))
               /\ todo' = Tail(todo)
               /\ IF Len(todo) = 1 THEN Finish(acc \o fx') /\ acc' = <<>>
                  ELSE acc' = acc \o fx' /\ UNCHANGED <<l, verdict, hmap>>
               /\ UNCHANGED <<tid, rbuf>>

\* total: if the specification has no step for the line at all
Stuck == /\ HasLine
         /\ ~ENABLED Step /\ ~ENABLED RecvBegin /\ ~ENABLED RecvDeliver
         /\ verdict' = "reject" /\ PrintT(<<"REJECT", tid, Line.n, Line.stim.op, "no-step", <<>>, ShowLog(Line.fx), <<>>, Line.post>>)
         /\ UNCHANGED <<vars, tid, l, hmap, rbuf, todo, acc>>

TNext == verdict = "run" /\ (Accept \/ Step \/ RecvBegin \/ RecvDeliver \/ Stuck)
=============================================================================
