CONSTANT Prop = "C12"
INIT MInit
NEXT MNext
CHECK_DEADLOCK FALSE
