----------------------------- MODULE TraceCodec -----------------------------
(* U2 for C01 / C02: records of calls to the real encode()/decode() of       *)
(* /repo/src/mqtt/pdu.py (written by harness/codec_driver.py) are judged      *)
(* against the reference codec MqttCodec.  One verdict line per failing       *)
(* clause:  <<"REJECT", record id, clause>> ; a summary line per record       *)
(* class at the end is produced by the counting of distinct states.           *)
EXTENDS MqttCodec, Json, IOUtils

T == ndJsonDeserialize(IOEnv.TRACE_FILE)

VARIABLES i, verdict
vars == <<i, verdict>>

R == T[i]

MkConnect(f, pwdbytes) ==
  [t |-> "CONNECT", ver |-> f.ver, clean |-> f.clean, ka |-> f.ka, cid |-> f.cid, will |-> f.will,
   wtopic |-> f.wtopic, wmsg |-> f.wmsg, wqos |-> f.wqos, wretain |-> f.wretain,
   user |-> f.user, uname |-> f.uname, pass |-> f.pass, pwd |-> pwdbytes]
Mk(t, f, payload, pwd) ==
  CASE t = "CONNECT" -> MkConnect(f, pwd)
    [] t = "CONNACK" -> [t |-> t, session |-> f.session, code |-> f.code]
    [] t = "PUBLISH" -> [t |-> t, dup |-> f.dup, qos |-> f.qos, retain |-> f.retain, topic |-> f.topic, id |-> f.id, payload |-> payload]
    [] t \in {"PUBACK", "PUBREC", "PUBCOMP", "UNSUBACK"} -> [t |-> t, id |-> f.id]
    [] t = "PUBREL" -> [t |-> t, id |-> f.id, dup |-> f.dup]
    [] t \in {"SUBSCRIBE", "UNSUBSCRIBE"} -> [t |-> t, id |-> f.id, dup |-> f.dup, topics |-> f.topics]
    [] t = "SUBACK" -> [t |-> t, id |-> f.id, granted |-> f.granted]
    [] OTHER -> [t |-> t]

\* the packet the caller asked for (Normalize of DESIGN 4.1: str payloads and passwords as their UTF-8 bytes)
InPkt(r) == Mk(r.t, r.fin,
               IF r.t = "PUBLISH" THEN (IF r.fin.pkind = "str" THEN Utf8Str(r.fin.payload) ELSE r.fin.payload) ELSE <<>>,
               IF r.t = "CONNECT" THEN Utf8Str(r.fin.pwd) ELSE <<>>)
\* the packet the library reported after decode()
OutPkt(t, d) == Mk(t, d, IF t = "PUBLISH" THEN d.payload ELSE <<>>, IF t = "CONNECT" THEN d.pwd ELSE <<>>)

TextsOK(r) ==
  CASE r.t = "PUBLISH" -> r.fin.pkind # "str" \/ \A k \in 1..Len(r.fin.payload) : IsScalar(r.fin.payload[k])
    [] r.t = "CONNECT" -> r.fin.pass = 0 \/ (TextOK(r.fin.pwd))
    [] OTHER -> TRUE
Rep(r) == /\ r.ill = <<>>
          /\ TextsOK(r)
          /\ Representable(InPkt(r))
          /\ (r.t = "PUBLISH" => r.fin.plen + 2 + Utf8Len(r.fin.topic) + 2 <= MaxRemaining)
VerOf(r) == IF r.t = "CONNECT" THEN r.fin.ver ELSE 4

BytesMatch(b, p, v) == b = Encode(p) /\ DecodeStrict(b, v) = p

PktClauses(r) ==
  LET rep == Rep(r)  big == r.big > 0  p == InPkt(r)  v == VerOf(r) IN
  IF ~rep THEN
    (IF r.enc.k = "raise" /\ r.enc.exc \in {"ValueError", "TypeError"} THEN <<>> ELSE <<"C02.unrepresentable_not_refused">>)
  ELSE IF r.enc.k # "bytes" THEN <<"C01.valid_refused", "C02.valid_refused">>
  ELSE
    (IF r.enc.b1 = r.enc.b2 /\ r.enc.tail_ok = 1 THEN <<>> ELSE <<"C01.encode_not_deterministic">>)
    \o (IF big THEN (IF r.enc.b1 = PublishHead(p, r.big) /\ r.enc.total = Len(r.enc.b1) + r.big /\ r.enc.tail_ok = 1 THEN <<>> ELSE <<"C02.bytes_differ_big">>)
        ELSE (IF BytesMatch(r.enc.b1, p, v) THEN <<>> ELSE <<"C02.bytes_differ">>))
    \o (IF r.dec.k # "fields" THEN <<"C01.decode_raised">>
        ELSE IF r.t = "PUBLISH" /\ (r.dec.payload_is_bytes # 1 \/ r.dec.payload_ok # 1) THEN <<"C01.payload_differs">>
        ELSE IF r.t = "CONNECT" /\ r.dec.pwd_is_bytes # 1 THEN <<"C01.password_not_bytes">>
        ELSE IF OutPkt(r.t, r.dec) = p THEN <<>> ELSE <<"C01.roundtrip_differs">>)

WireClauses(r) ==
  LET d == DecodeStrict(r.bytes, r.ver) IN
  IF IsBad(d) \/ d.t # r.t THEN <<"skip">>
  ELSE IF r.dec.k # "fields" THEN <<"C02.wire_decode_raised">>
  ELSE IF OutPkt(r.t, r.dec) = d THEN <<>> ELSE <<"C02.wire_decode_differs">>

StrEncOK(s, e) == /\ Len(e) >= 2 /\ Dec16(e, 1) = Len(e) - 2
                  /\ LET body == SubSeq(e, 3, Len(e)) IN Utf8Valid(body) /\ Utf8Decode(body) = s
PrimClauses(r) ==
  LET n == Len(r.ins)
      bad(k) ==
        CASE r.op = "int16" ->
               IF r.ins[k] \in 0..65535
               THEN (IF r.encs[k] = Enc16(r.ins[k]) THEN <<>> ELSE <<"C02.int16_bytes">>) \o (IF r.decs[k] = r.ins[k] THEN <<>> ELSE <<"C01.int16_inverse">>)
               ELSE (IF r.encs[k] = <<>> THEN <<>> ELSE <<"C02.int16_not_refused">>)
          [] r.op = "len" ->
               (IF r.encs[k] = EncLen(r.ins[k]) THEN <<>> ELSE <<"C02.len_bytes">>) \o (IF r.decs[k] = r.ins[k] THEN <<>> ELSE <<"C01.len_inverse">>)
          [] r.op = "str" ->
               IF TextOK(r.ins[k])
               THEN (IF StrEncOK(r.ins[k], r.encs[k]) THEN <<>> ELSE <<"C02.str_bytes">>) \o (IF r.decs[k] = r.ins[k] THEN <<>> ELSE <<"C01.str_inverse">>)
               ELSE (IF r.encs[k] = <<>> THEN <<>> ELSE <<"C02.str_not_refused">>)
      idx == SelectSeq([k \in 1..n |-> k], LAMBDA k : bad(k) # <<>>)
  IN \* the clauses of the first failing element (FlattenSeq would recurse n deep)
     IF idx = <<>> THEN <<>> ELSE bad(idx[1])

Clauses(r) == CASE r.op = "pkt" -> PktClauses(r) [] r.op = "wire" -> WireClauses(r) [] OTHER -> PrimClauses(r)

\* classification used for the evidence counts
Kind(r, cl) == IF r.op = "pkt" THEN (IF Rep(r) THEN "pkt.valid" ELSE "pkt.unrepresentable")
               ELSE IF r.op = "wire" THEN (IF cl = <<"skip">> THEN "wire.skipped" ELSE "wire.wellformed")
               ELSE "prims"

Init == i \in 1..Len(T) /\ verdict = "run"
Next == /\ verdict = "run"
        /\ LET cl == Clauses(R)  real == SelectSeq(cl, LAMBDA c : c # "skip") IN
           /\ verdict' = IF real = <<>> THEN Kind(R, cl) ELSE "reject"
           /\ (real # <<>> => PrintT(<<"REJECT", R.id, real>>))
           /\ (real = <<>> => PrintT(<<"OK", R.id, Kind(R, cl)>>))
        /\ UNCHANGED i
=============================================================================
