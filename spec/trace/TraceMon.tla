------------------------------ MODULE TraceMon ------------------------------
(***************************************************************************)
(* Property automata over the OBSERVABLE interface (DESIGN 4.4).           *)
(* A recorded execution is a sequence of lines (stimulus, effects, cheap   *)
(* projected state).  The automata read only those: a derived "core"       *)
(* (protocol state, transport phase, configuration, the table of Deferreds *)
(* handed out) and, per property, a ghost record.  OK_Cxx failing on a     *)
(* line is what raises VIOLATION property=Cxx.  The same automata run on   *)
(* behaviours exported from the specification (they must all be accepted)  *)
(* and on executions of the real classes.                                  *)
(*                                                                         *)
(* One TLC run judges one property (constant Prop); output: one line       *)
(*   <<"ACCEPT", tid, lines, hits>>  or  <<"REJECT", tid, n, clause, info>> *)
(* per trace.                                                              *)
(***************************************************************************)
EXTENDS MqttArgs, MqttFraming, Json, IOUtils

CONSTANT Prop

T   == ndJsonDeserialize(IOEnv.TRACE_FILE)
Idx == JsonDeserialize(IOEnv.INDEX_FILE)

VARIABLES tid, l, verdict, core, gh
mvars == <<tid, l, verdict, core, gh>>

Line    == T[l]
HasLine == l <= Idx[tid][2]
Addrs   == {"A", "B"}

SeqSet(s) == {s[i] : i \in 1..Len(s)}
Min2(x, y) == IF x < y THEN x ELSE y
Max2(x, y) == IF x > y THEN x ELSE y
Where(s, P(_)) == SelectSeq([i \in 1..Len(s) |-> i], LAMBDA i : P(s[i]))     \* positions
Count(s, P(_)) == Len(SelectSeq(s, P))
LogExc(e) == IF e.base # "other" THEN e.base ELSE e.exc

-----------------------------------------------------------------------------
(* The derived core *)
NoA == [g |-> 0, st |-> "none", tp |-> "none", clean |-> 1, ver |-> 4, ka |-> 0, window |-> 1, initT |-> 4,
        hPub |-> 0, hDisc |-> 0, hMade |-> 0, rbuf |-> <<>>, cd |-> 0, cat |-> 0]
Core0 == [A |-> [a \in Addrs |-> NoA], D |-> <<>>, t |-> 0]

PubCap(ln) == ln.profile \in {"pub", "both"}
SubCap(ln) == ln.profile \in {"sub", "both"}
Handles(t, st, ln) ==
  CASE t = "CONNACK"  -> st = "connecting"
    [] t = "PINGRESP" -> st = "connected"
    [] t \in {"PUBACK", "PUBREC", "PUBCOMP"} -> PubCap(ln) /\ st = "connected"
    [] t \in {"SUBACK", "UNSUBACK", "PUBLISH", "PUBREL"} -> SubCap(ln) /\ st = "connected"
    [] OTHER -> FALSE
AllowedOp(op, st, ln) ==
  CASE op = "connect"    -> st = "idle"
    [] op = "publish"    -> PubCap(ln) /\ st \in {"connecting", "connected"}
    [] op \in {"subscribe", "unsubscribe"} -> SubCap(ln) /\ st = "connected"
    [] op = "disconnect" -> st = "connected"
    [] OTHER -> TRUE

ApiOps == {"connect", "publish", "subscribe", "unsubscribe"}

\* effects of a line by kind
Fx(ln, k) == SelectSeq(ln.fx, LAMBDA e : e.k = k)
HasFx(ln, k) == \E i \in 1..Len(ln.fx) : ln.fx[i].k = k
Raised(ln) == HasFx(ln, "raise")

\* inbound: the packets the chunk completes for address a, with the derived state in which each arrives
\*   [raw, p (lenient decode or malformed), st]
RECURSIVE InbR(_, _, _, _, _)
InbR(pk, i, st, ver, acc) ==
  IF i > Len(pk) THEN [acc |-> acc, st |-> st]
  ELSE LET d == DecodeLenient(pk[i], ver)
           p == IF IsBad(d) THEN [t |-> "malformed", why |-> d.why]
                ELSE IF d.t = "PUBLISH" /\ d.qos = 3 THEN [t |-> "malformed", why |-> "publish.qos3"] ELSE d
           st2 == IF p.t = "CONNACK" /\ st = "connecting" THEN (IF p.code = 0 THEN "connected" ELSE "idle") ELSE st
       IN InbR(pk, i + 1, st2, ver, Append(acc, [raw |-> pk[i], p |-> p, st |-> st]))
Inbound(c, ln) ==
  LET a == ln.stim.a  k == c.A[a]  f == Frame(k.rbuf \o ln.stim.bytes)
  IN IF k.tp \in {"open", "closing"} THEN [rest |-> f.rest] @@ InbR(f.pkts, 1, k.st, k.ver, <<>>)
     ELSE [rest |-> f.rest, acc |-> <<>>, st |-> k.st]          \* A2: nothing is delivered after an abort / loss

\* outbound: every write effect decoded by the strict reference decoder
\* (decoded with the 3.1 flag rules, which also admit DUP on PUBREL / SUBSCRIBE / UNSUBSCRIBE: whether the DUP bit fits the
\* protocol level in force is judged by C08 and C18, the other automata only need to know which packet it is)
WPkt(c, e) == LET d == DecodeStrict(e.bytes, 3) IN IF IsBad(d) THEN [t |-> "malformed", why |-> d.why] ELSE d
Writes(c, ln) == LET w == Fx(ln, "write") IN [i \in 1..Len(w) |-> [a |-> w[i].c[1], g |-> w[i].c[2], p |-> WPkt(c, w[i]), bytes |-> w[i].bytes]]

\* the Deferred table: one entry per "ret" effect, in handle order
NewD(c, ln) ==
  LET rets == Fx(ln, "ret") IN
  \* (a stimulus interrupted by a re-entrant call continues on a line with op "cont" that carries the original stimulus)
  LET st0 == IF ln.stim.op = "cont" THEN ln.stim.orig ELSE ln.stim IN
  [i \in 1..Len(rets) |-> [d |-> rets[i].d, mid |-> rets[i].mid, op |-> st0.op, a |-> st0.a, g |-> c.A[st0.a].g,
                           st |-> "pending", val |-> [ty |-> "none"], exc |-> "", n |-> ln.n, t |-> ln.t, stim |-> st0, fn |-> 0]]
ApplyFires(D, ln) ==
  LET fs == Fx(ln, "fire") IN
  [d \in 1..Len(D) |->
     LET mine == SelectSeq(fs, LAMBDA e : e.d = d) IN
     IF mine = <<>> THEN D[d]
     ELSE [D[d] EXCEPT !.st = IF mine[1].ok = 1 THEN "ok" ELSE "fail",
                       !.val = IF mine[1].ok = 1 THEN mine[1].val ELSE @,
                       !.exc = IF mine[1].ok = 0 THEN LogExc(mine[1]) ELSE @,
                       !.fn = ln.n]]

IntOr(v, dflt) == IF v.ty = "int" THEN v.v ELSE dflt

CoreStep(c, ln) ==
  LET s == ln.stim
      D1 == ApplyFires(c.D \o NewD(c, ln), ln)
      closes == Fx(ln, "close")
      \* transport phase after the close requests of this line
      tpAfter(a, tp0) == IF \E i \in 1..Len(closes) : closes[i].c[1] = a /\ closes[i].c[2] = c.A[a].g /\ closes[i].how = "abort"
                           THEN (IF tp0 \in {"open", "closing"} THEN "aborted" ELSE tp0)
                         ELSE IF \E i \in 1..Len(closes) : closes[i].c[1] = a /\ closes[i].c[2] = c.A[a].g /\ closes[i].how = "lose"
                           THEN (IF tp0 = "open" THEN "closing" ELSE tp0)
                         ELSE tp0
      A1 == [a \in Addrs |->
              LET k == c.A[a] IN
              IF "a" \notin DOMAIN s \/ s.a # a THEN [k EXCEPT !.tp = tpAfter(a, k.tp)]
              ELSE
              CASE s.op = "build" -> [NoA EXCEPT !.g = s.g, !.st = "idle", !.tp = "open"]
                [] s.op = "set" ->
                     IF Raised(ln) THEN k
                     ELSE CASE s.what = "window"  -> [k EXCEPT !.window = IntOr(s.v, @)]
                            [] s.what = "timeout" -> [k EXCEPT !.initT = IntOr(s.v, @)]
                            [] s.what = "onPublish" -> [k EXCEPT !.hPub = s.v.v]
                            [] s.what = "onDisconnection" -> [k EXCEPT !.hDisc = s.v.v]
                            [] s.what = "onMqttConnectionMade" -> [k EXCEPT !.hMade = s.v.v]
                            [] OTHER -> k
                [] s.op = "connect" ->
                     \* accepted iff a Deferred was returned and is still pending after the call
                     LET rets == Fx(ln, "ret") IN
                     IF k.st = "idle" /\ "part" \in DOMAIN s /\ HasFx(ln, "arm")
                     THEN \* interrupted by a re-entrant call before it returned: accepted (the CONNACK timer is armed), Deferred not yet known
                          [k EXCEPT !.st = "connecting", !.clean = s.clean, !.ver = IF s.ver \in {3, 4} THEN s.ver ELSE 4,
                                    !.ka = IntOr(s.ka, 0), !.cd = 0, !.cat = ln.t, !.tp = tpAfter(a, @)]
                     ELSE IF rets # <<>> /\ D1[rets[1].d].st = "pending" /\ k.st = "idle"
                     THEN [k EXCEPT !.st = "connecting", !.clean = s.clean, !.ver = IF s.ver \in {3, 4} THEN s.ver ELSE 4,
                                    !.ka = IntOr(s.ka, 0), !.cd = rets[1].d, !.cat = ln.t, !.tp = tpAfter(a, @)]
                     ELSE [k EXCEPT !.tp = tpAfter(a, @)]
                [] s.op = "disconnect" ->
                     IF k.st = "connected" /\ ~Raised(ln) THEN [k EXCEPT !.st = "closed", !.tp = tpAfter(a, @)]
                     ELSE [k EXCEPT !.tp = tpAfter(a, @)]
                [] s.op = "recv" -> LET inb == Inbound(c, ln) IN [k EXCEPT !.st = inb.st, !.rbuf = inb.rest, !.tp = tpAfter(a, @)]
                [] s.op = "lost" -> [k EXCEPT !.st = "idle", !.tp = "lost"]
                [] s.op = "cont" /\ s.of = "connect" /\ k.st = "connecting" /\ k.cd = 0 /\ Fx(ln, "ret") # <<>>
                                 -> [k EXCEPT !.cd = Fx(ln, "ret")[1].d, !.tp = tpAfter(a, @)]
                [] OTHER -> [k EXCEPT !.tp = tpAfter(a, @)]]
  IN [A |-> A1, D |-> D1, t |-> ln.t]

\* generic sanity of the recording itself (not a property): handles are dense, no Deferred fires twice
HarnessOK(c, ln) ==
  LET rets == Fx(ln, "ret")  fs == Fx(ln, "fire") IN
  /\ \A i \in 1..Len(rets) : rets[i].d = Len(c.D) + i
  /\ \A i \in 1..Len(fs) : fs[i].d \in 1..(Len(c.D) + Len(rets))

Jittered(ln) == "meta" \in DOMAIN ln /\ "jitter" \in DOMAIN ln.meta
\* stage 3: segments of a stimulus interrupted by re-entrant API calls
Mid(ln)    == "part" \in DOMAIN ln.stim                       \* the stimulus continues after this line
IsContL(ln) == ln.stim.op = "cont"
Nested(ln) == "nested" \in DOMAIN ln.stim
\* the line completes the stimulus op (unsplit, or its last continuation)
Ends(ln, op) == ~Mid(ln) /\ (ln.stim.op = op \/ (IsContL(ln) /\ ln.stim.of = op))
Reactive(t) == "meta" \in DOMAIN T[Idx[t][2]] /\ "reactive" \in DOMAIN T[Idx[t][2]].meta
ReactProps == {"C04", "C05", "C07", "C10", "C11", "C13", "C14", "C16", "C17", "C18"}

StName == [none |-> "none", idle |-> "IdleState", connecting |-> "ConnectingState", connected |-> "ConnectedState", closed |-> "BaseState"]

ShortFx(ln) == [i \in 1..Len(ln.fx) |-> ln.fx[i].k]
OKr(g)      == [gh |-> g, err |-> "", info |-> <<>>, hit |-> 0]
Hit(g, n)   == [gh |-> g, err |-> "", info |-> <<>>, hit |-> n]
Bad2(g, clause, info) == [gh |-> g, err |-> clause, info |-> info, hit |-> 0]
\* first failing clause of a sequence of <<condition, clause, info>>
FirstBad(g, checks, hits) ==
  LET bad == SelectSeq(checks, LAMBDA x : ~x[1]) IN
  IF bad = <<>> THEN Hit(g, hits) ELSE Bad2(g, bad[1][2], bad[1][3])

-----------------------------------------------------------------------------
(* C18  Each connection's output is a well-formed client packet stream led by CONNECT *)
C18_0 == [a \in Addrs |-> [wb |-> <<>>, npk |-> 0, disc |-> 0, ver |-> 4, multi |-> 0]]
\* one write effect at position i of the line
C18_Write(r, c, ln, i) ==
  IF r.err # "" THEN r ELSE
  LET e == ln.fx[i]  a == e.c[1]  k == c.A[a]  x == r.gh[a] IN
  IF e.c[2] # k.g \/ k.tp = "lost" THEN Bad2(r.gh, "C18.write_after_lost", <<a, e.c[2], e.bytes[1]>>)
  ELSE IF x.disc = 1 THEN Bad2(r.gh, "C18.write_after_disconnect", <<a, e.bytes[1]>>)
  ELSE
  LET f == Frame(x.wb \o e.bytes)
      \* the protocol level of the connection is the one its CONNECT announces
      \* (a second accepted connect() on the same transport, outside A6, announces the level anew)
      ver0 == IF f.pkts # <<>> /\ ~IsBad(DecodeStrict(f.pkts[1], 3)) /\ DecodeStrict(f.pkts[1], 3).t = "CONNECT"
              THEN DecodeStrict(f.pkts[1], 3).ver ELSE x.ver
      ps == [j \in 1..Len(f.pkts) |-> DecodeStrict(f.pkts[j], IF ver0 = 3 THEN 3 ELSE 4)]
      isConn(j) == ~IsBad(ps[j]) /\ ps[j].t = "CONNECT"
      isDisc(j) == ~IsBad(ps[j]) /\ ps[j].t = "DISCONNECT"
      closeLose == \E m \in 1..Len(ln.fx) : ln.fx[m].k = "close" /\ ln.fx[m].how = "lose" /\ ln.fx[m].c[1] = a /\ ln.fx[m].c[2] = k.g
      secondOK == ln.stim.op = "connect"      \* outside A6: a second accepted connect() on the same transport is not judged
      checks == FlattenSeq([j \in 1..Len(ps) |->
                  << <<~IsBad(ps[j]), "C18.malformed_packet", <<a, f.pkts[j][1], IF IsBad(ps[j]) THEN ps[j].why ELSE "">> >>,
                     <<IsBad(ps[j]) \/ ClientPacket(ps[j]), "C18.broker_only_type", <<a, f.pkts[j][1]>> >>,
                     \* [MQTT-2.3.1-1]: a packet that carries an identifier carries a non-zero one
                     <<IsBad(ps[j]) \/ "id" \notin DOMAIN ps[j] \/ (ps[j].t = "PUBLISH" /\ ps[j].qos = 0) \/ ps[j].id # 0,
                       "C18.malformed_packet", <<a, f.pkts[j][1], "identifier 0">> >>,
                     <<(x.npk + j = 1) => (isConn(j) /\ ln.stim.op = "connect"), "C18.first_not_connect", <<a, f.pkts[j][1], ln.stim.op>> >>,
                     <<(x.npk + j > 1 /\ isConn(j)) => secondOK, "C18.second_connect", <<a, ln.stim.op>> >>,
                     <<isDisc(j) => (ln.stim.op = "disconnect" /\ closeLose), "C18.disconnect_outside_disconnect", <<a, ln.stim.op>> >>,
                     <<(\E m \in 1..(j-1) : isDisc(m)) => FALSE, "C18.write_after_disconnect", <<a, f.pkts[j][1]>> >> >>])
      x2 == [x EXCEPT !.wb = f.rest, !.npk = @ + Len(ps), !.disc = IF \E j \in 1..Len(ps) : isDisc(j) THEN 1 ELSE @, !.ver = ver0]
  IN LET fb == FirstBad([r.gh EXCEPT ![a] = x2], checks, r.hit + Len(ps)) IN fb
RECURSIVE C18_Fold(_, _, _, _)
C18_Fold(r, c, ln, i) == IF i > Len(ln.fx) THEN r
                         ELSE C18_Fold(IF ln.fx[i].k = "write" THEN C18_Write(r, c, ln, i) ELSE r, c, ln, i + 1)
C18_Step(c, c2, g, ln) ==
  LET s == ln.stim
      g1 == IF s.op = "build" THEN [g EXCEPT ![s.a] = C18_0[s.a]] ELSE g
      r  == C18_Fold(OKr(g1), c, ln, 1)
  IN IF r.err # "" THEN r
     ELSE IF s.op = "lost" /\ r.gh[s.a].wb # <<>> THEN Bad2(r.gh, "C18.incomplete_packet_at_loss", <<s.a>>)
     ELSE r
C18_End(c, g) == OKr(g)

-----------------------------------------------------------------------------
(* C14  Operations are honoured only in the states and profiles that allow them *)
NoEffect(ln) == ~HasFx(ln, "write") /\ ~HasFx(ln, "arm") /\ ~HasFx(ln, "close")
\* outcome class of an API stimulus
Outcome(c2, ln) ==
  IF Raised(ln) THEN LogExc(Fx(ln, "raise")[1])
  ELSE LET rets == Fx(ln, "ret") IN
       IF rets = <<>> THEN "none"
       ELSE LET d == c2.D[rets[1].d] IN IF d.st = "fail" THEN d.exc ELSE d.st
C14_Step(c, c2, g, ln) ==
  LET s == ln.stim IN
  IF s.op \in ApiOps \cup {"disconnect"} THEN
    LET k == c.A[s.a]
        judged == k.st \in {"idle", "connecting", "connected"} /\ k.tp = "open"
        allowed == AllowedOp(s.op, k.st, ln)
        out == Outcome(c2, ln)
    IN IF ~judged THEN OKr(g)
       ELSE FirstBad(g, << <<allowed \/ out = "MQTTStateError", "C14.not_refused", <<s.op, k.st, ln.profile, out>> >>,
                          <<allowed \/ NoEffect(ln), "C14.refused_but_effects", <<s.op, k.st, ln.profile>> >>,
                          <<~allowed \/ out # "MQTTStateError", "C14.allowed_but_refused", <<s.op, k.st, ln.profile>> >>,
                          <<StName[c2.A[s.a].st] = ln.post.state[s.a] \/ c2.A[s.a].st = "closed", "C14.state_differs", <<s.op, c2.A[s.a].st, ln.post.state[s.a]>> >> >>, 1)
  ELSE IF s.op = "recv" THEN
    LET inb == Inbound(c, ln).acc
        wf  == SelectSeq(inb, LAMBDA x : x.p.t # "malformed")
        allUnhandled == Len(wf) = Len(inb) /\ inb # <<>> /\ \A i \in 1..Len(inb) : ~Handles(inb[i].p.t, inb[i].st, ln) /\ inb[i].p.t \in BrokerTypes
    IN FirstBad(g, << <<~allUnhandled \/ ln.fx = <<>>, "C14.unexpected_packet_had_effect", <<IF inb # <<>> THEN <<inb[1].p.t, inb[1].st>> ELSE <<>>, ln.profile>> >>,
                      <<c2.A[s.a].st \notin {"idle", "connecting", "connected"} \/ c.A[s.a].tp \notin {"open"} \/ StName[c2.A[s.a].st] = ln.post.state[s.a],
                        "C14.state_differs", <<"recv", c2.A[s.a].st, ln.post.state[s.a]>> >> >>, IF allUnhandled THEN 1 ELSE 0)
  ELSE IF Ends(ln, "lost") THEN
    FirstBad(g, << <<ln.post.state[s.a] = "IdleState", "C14.state_differs", <<"lost", ln.post.state[s.a]>> >> >>, 0)
  ELSE IF s.op = "set" /\ "a" \in DOMAIN s /\ c.A[s.a].st \in {"idle", "none"} THEN
    \* a setter is no operation of the table above: on an idle protocol it makes nothing (held back, inherited) take effect
    FirstBad(g, << <<NoEffect(ln), "C14.effect_while_idle", <<s.what, ShortFx(ln)>> >> >>, 1)
  ELSE OKr(g)
C14_End(c, g) == OKr(g)

-----------------------------------------------------------------------------
(* C04  connect() handshake outcome and connection-loss notification, exactly once each *)
ConnArgs(s) == [cid |-> s.cid, ka |-> s.ka, clean |-> s.clean, ver |-> s.ver, wtopic |-> s.wtopic, wmsg |-> s.wmsg,
                wqos |-> s.wqos, wretain |-> s.wretain, uname |-> s.uname, pwd |-> s.pwd]
ConnackTicks(ka) == 1024 * (IF ka = 0 THEN 10 ELSE ka)
\* ghost: exp = set of <<a, g, reason>> notifications owed, done = those delivered
\*        ctm = pairs <<timer handle armed by an accepted connect(), its Deferred>>
C04_0 == [exp |-> {}, done |-> {}, ctm |-> {}]
C04_Step(c, c2, g, ln) ==
  LET s == ln.stim
      fires == Fx(ln, "fire")
      \* fires of connect Deferreds in this line
      cf == SelectSeq(fires, LAMBDA e : c2.D[e.d].op = "connect" /\ c2.D[e.d].n # ln.n)
      cbs == SelectSeq(Fx(ln, "cb"), LAMBDA e : e.name = "onDisconnection")
      accepted == s.op = "connect" /\ c.A[s.a].st = "idle" /\ c2.A[s.a].st = "connecting" /\ Fx(ln, "arm") # <<>> /\ Fx(ln, "ret") # <<>>
      g1 == [g EXCEPT !.exp = IF s.op = "lost" /\ c.A[s.a].hDisc = 1 THEN @ \cup {<<s.a, c.A[s.a].g, s.reason>>} ELSE @,
                      !.done = @ \cup {<<cbs[i].a, cbs[i].g, cbs[i].reason>> : i \in 1..Len(cbs)},
                      !.ctm = IF accepted THEN @ \cup {<<Fx(ln, "arm")[1].tm, Fx(ln, "ret")[1].d>>} ELSE @]
      \* the CONNACK timeout of a handshake that already has its outcome must not act any more
      staleTimeout == s.op = "fire" /\ \E x \in g.ctm : x[1] = s.tm /\ c.D[x[2]].st # "pending"
      inb == IF s.op = "recv" THEN Inbound(c, ln).acc ELSE <<>>
      connacks == SelectSeq(inb, LAMBDA x : x.p.t = "CONNACK" /\ x.st = "connecting")
      \* every fire of a connect Deferred is justified
      justified(e) ==
        LET d == c2.D[e.d]  k == c.A[d.a] IN
        IF e.ok = 1 THEN s.op = "recv" /\ s.a = d.a /\ connacks # <<>> /\ connacks[1].p.code = 0 /\ k.cd = e.d
                         /\ e.val = [ty |-> "bool", v |-> connacks[1].p.session]
        ELSE CASE LogExc(e) = "MQTTStateError"   -> s.op = "recv" /\ s.a = d.a /\ connacks # <<>> /\ connacks[1].p.code # 0 /\ k.cd = e.d
                                                    /\ ln.post.state[d.a] = "IdleState"
               [] LogExc(e) = "MQTTTimeoutError" -> /\ s.op = "fire"
                                                    /\ ln.t = d.t + ConnackTicks(IntOr(d.stim.ka, 0))
                                                    /\ \E i \in 1..Len(ln.fx) : ln.fx[i].k = "close" /\ ln.fx[i].how = "abort" /\ ln.fx[i].c[1] = d.a /\ ln.fx[i].c[2] = d.g
               [] OTHER -> FALSE
      connectOK ==
        IF s.op = "connect" /\ ~Mid(ln) /\ c.A[s.a].st = "idle" /\ c.A[s.a].tp = "open" /\ ConnectCheck(ConnArgs(s)) = "ok"
        THEN LET w == Writes(c2, ln)  arms == Fx(ln, "arm")  rets == Fx(ln, "ret") IN
             /\ Len(w) = 1 /\ w[1].a = s.a /\ w[1].g = c.A[s.a].g /\ w[1].p = PktConnect(ConnArgs(s))
             /\ Len(arms) = 1 /\ arms[1].delay = ConnackTicks(s.ka.v)
             /\ Len(rets) = 1 /\ c2.D[rets[1].d].st = "pending"
        ELSE TRUE
      connackOK ==
        connacks = <<>> \/
        LET k == c.A[s.a]  code == connacks[1].p.code IN
        k.cd = 0 \/ c.D[k.cd].st # "pending" \/
        \E i \in 1..Len(fires) : fires[i].d = k.cd /\ (IF code = 0 THEN fires[i].ok = 1 ELSE fires[i].ok = 0 /\ LogExc(fires[i]) = "MQTTStateError")
  IN FirstBad(g1,
       << <<connectOK, "C04.connect_effects", <<s.op>> >>,
          <<\A i \in 1..Len(cf) : c.D[cf[i].d].st = "pending", "C04.connect_deferred_fired_twice", <<>> >>,
          <<IsContL(ln) \/ Mid(ln) \/ \A i \in 1..Len(cf) : justified(cf[i]), "C04.connect_outcome_unjustified", <<s.op, IF cf # <<>> THEN cf[1] ELSE <<>> >> >>,
          <<connackOK \/ Mid(ln), "C04.connack_without_outcome", <<>> >>,
          <<~staleTimeout \/ ln.fx = <<>>, "C04.timeout_acts_after_outcome", <<ShortFx(ln)>> >>,
          \* (judged where the loss handling first hands control to the application - the whole step, or its part before a
          \*  re-entrant call, which may itself be a connect())
          <<s.op # "lost" \/ ln.post.state[s.a] = "IdleState", "C04.not_idle_after_loss", <<>> >>,
          <<\A i \in 1..Len(cbs) : s.op = "fire" /\ <<cbs[i].a, cbs[i].g, cbs[i].reason>> \in g.exp \ g.done, "C04.unexpected_notification", <<s.op>> >>,
          <<\A i, j \in 1..Len(cbs) : i # j => <<cbs[i].a, cbs[i].g>> # <<cbs[j].a, cbs[j].g>>, "C04.notified_twice", <<>> >> >>,
       Len(cf) + Len(cbs) + (IF s.op = "connect" THEN 1 ELSE 0))
\* at the end of a drained history every connect Deferred has fired and every owed notification was delivered
C04_End(c, g) ==
  LET ln == T[Idx[tid][2]]  drained == ln.post.timers = <<>> IN
  IF ~drained THEN OKr(g)
  ELSE FirstBad(g, << <<\A d \in 1..Len(c.D) : c.D[d].op = "connect" => c.D[d].st # "pending", "C04.connect_never_fired", <<>> >>,
                      <<g.exp \subseteq g.done, "C04.notification_missing", <<g.exp \ g.done>> >> >>, 1)

-----------------------------------------------------------------------------
(* C05  publish() Deferred fires exactly once, only on the ack its QoS level requires *)
\* ghost: per publish Deferred handle: [qos, mid, sent (a PUBLISH with that id/content was written), rec (PUBREC seen after it), unj]
C05_0 == [P |-> <<>>]        \* function handle -> record, as a sequence of <<d, rec>> pairs is awkward: use a function over a set
C05_Get(g, d) == g.P[CHOOSE i \in 1..Len(g.P) : g.P[i].d = d]
C05_Has(g, d) == \E i \in 1..Len(g.P) : g.P[i].d = d
C05_Upd(g, d, f(_)) == [g EXCEPT !.P = [i \in 1..Len(g.P) |-> IF g.P[i].d = d THEN f(g.P[i]) ELSE g.P[i]]]
C05_Step(c, c2, g, ln) ==
  LET s == ln.stim
      rets == Fx(ln, "ret")
      fires == Fx(ln, "fire")
      w == Writes(c2, ln)
      \* new publish requests (valid qos argument)
      isPub == s.op = "publish" /\ rets # <<>> /\ s.qos.ty = "int"
      newP == IF isPub /\ c2.D[rets[1].d].st = "pending"
              THEN <<[d |-> rets[1].d, a |-> s.a, qos |-> s.qos.v, mid |-> rets[1].mid, sent |-> FALSE, rec |-> FALSE, unj |-> FALSE,
                      topic |-> s.topic, payload |-> s.payload]>> ELSE <<>>
      g1 == [g EXCEPT !.P = @ \o newP]
      \* writes: a PUBLISH carrying the identifier and content of a pending request marks it sent
      sentNow(x) == \E i \in 1..Len(w) : w[i].p.t = "PUBLISH" /\ w[i].a = x.a /\ w[i].p.qos = x.qos /\ w[i].p.id = x.mid
                                         /\ x.topic.ty = "str" /\ w[i].p.topic = x.topic.v /\ w[i].p.payload = PayloadBytes(x.payload)
      inb == IF s.op = "recv" THEN Inbound(c, ln).acc ELSE <<>>
      \* acknowledgements that arrive in this chunk, in whatever state (this is the justification direction: the statement
      \* says "only when the ack arrives"; whether the client had to honour it is C14's subject)
      acks(t) == {inb[i].p.id : i \in {j \in 1..Len(inb) : inb[j].p.t = t}}
      g2 == [g1 EXCEPT !.P = [i \in 1..Len(g1.P) |->
                LET x == g1.P[i] IN
                IF x.d <= Len(c.D) /\ c.D[x.d].st # "pending" THEN x
                ELSE [x EXCEPT !.sent = @ \/ sentNow(x),
                               !.rec  = @ \/ (s.op = "recv" /\ s.a = x.a /\ x.sent /\ x.mid \in acks("PUBREC")),
                               !.unj  = @ \/ (s.op = "recv" /\ s.a = x.a /\ ((x.qos = 2 /\ x.mid \in acks("PUBACK")) \/ (x.qos = 1 /\ x.mid \in acks("PUBREC") \cup acks("PUBCOMP"))))]]]
      \* successes of publish Deferreds created on earlier lines
      oks == SelectSeq(fires, LAMBDA e : e.ok = 1 /\ C05_Has(g, e.d))
      okJust(e) ==
        LET x == C05_Get(g2, e.d)  x0 == C05_Get(g, e.d) IN
        x.unj \/
        ( /\ s.op = "recv" /\ s.a = x.a /\ x0.sent
          /\ e.val = [ty |-> "int", v |-> x.mid]
          /\ IF x.qos = 1 THEN x.mid \in acks("PUBACK") ELSE x.mid \in acks("PUBCOMP") /\ x.rec )
      \* the other direction ("fires exactly once": an acknowledged publish does fire): a strictly well-formed PUBACK / PUBCOMP
      \* that arrives while connected for a request that is pending, was sent and (QoS 2) had its PUBREC on an earlier step
      obl(t) == {inb[i].p.id : i \in {j \in 1..Len(inb) : inb[j].p.t = t /\ inb[j].st = "connected"
                                                          /\ ~IsBad(DecodeStrict(inb[j].raw, c.A[s.a].ver))}}
      mustFire == IF s.op # "recv" \/ Mid(ln) \/ IsContL(ln) \/ Nested(ln) THEN {} ELSE
                  {i \in 1..Len(g.P) : LET x == g.P[i] IN
                      /\ x.d \in 1..Len(c.D) /\ c.D[x.d].st = "pending" /\ s.a = x.a /\ x.sent /\ c.A[s.a].tp = "open"
                      /\ ~g2.P[i].unj          \* (no acknowledgement of the wrong type for it, in this chunk or before)
                      /\ ((x.qos = 1 /\ x.mid \in obl("PUBACK")) \/ (x.qos = 2 /\ x.rec /\ x.mid \in obl("PUBCOMP")))}
      qos0OK == (isPub /\ s.qos.v = 0) =>
                   LET d == c2.D[rets[1].d] IN d.st # "pending" /\ (d.st = "ok" => d.val = [ty |-> "none"] /\ rets[1].mid = -1)
      midOK == newP = <<>> \/ newP[1].qos = 0 \/ newP[1].mid \in 1..65535
  IN FirstBad(g2,
       << <<qos0OK, "C05.qos0_not_fired_at_return", <<>> >>,
          <<midOK, "C05.msgid_missing", <<>> >>,
          <<\A i \in 1..Len(oks) : c.D[oks[i].d].st = "pending", "C05.fired_twice", <<>> >>,
          <<\A i \in 1..Len(oks) : okJust(oks[i]), "C05.success_without_required_ack", <<s.op, IF oks # <<>> THEN oks[1] ELSE <<>> >> >>,
          <<\A i \in mustFire : c2.D[g.P[i].d].st = "ok", "C05.not_fired_on_required_ack", <<{g.P[i].mid : i \in mustFire}>> >> >>,
       Len(oks) + Len(newP) + Cardinality(mustFire))
C05_End(c, g) == OKr(g)


-----------------------------------------------------------------------------
(* shared helpers over the Deferred table *)
Pending(c, d) == d \in 1..Len(c.D) /\ c.D[d].st = "pending"
IsPubReq(e)   == e.op = "publish" /\ e.stim.qos.ty = "int" /\ e.stim.qos.v \in 1..2
IsReq(e)      == (IsPubReq(e) \/ e.op \in {"subscribe", "unsubscribe"}) /\ e.mid >= 0
InbAcks(inb, t) == {inb[i].p.id : i \in {j \in 1..Len(inb) : inb[j].p.t = t}}
PubArgs(s) == [topic |-> s.topic, payload |-> s.payload, qos |-> s.qos, retain |-> s.retain]

-----------------------------------------------------------------------------
(* C10  Send window bounds in-flight publishes; queue is FIFO and strands no message *)
\* ghost per address: acc = accepted publishes in call order, noack = handles first-transmitted and not yet PUBACK/PUBREC-ed
C10_0 == [a \in Addrs |-> [acc |-> <<>>, noack |-> {}]]
C10_HeadPos(c2, acc) ==
  LET ps == SelectSeq([i \in 1..Len(acc) |-> i], LAMBDA i : ~acc[i].tx /\ ~acc[i].drop /\ (acc[i].qos = 0 \/ Pending(c2, acc[i].d)))
  IN IF ps = <<>> THEN 0 ELSE ps[1]
\* one PUBLISH write w on address a;  r = [x (ghost of a), err, info, hit]
C10_Write(r, c, c2, a, w) ==
  IF r.err # "" THEN r ELSE
  LET x == r.x  p == w.p  h == C10_HeadPos(c2, x.acc)
      mine == SelectSeq([i \in 1..Len(x.acc) |-> i], LAMBDA i : x.acc[i].qos > 0 /\ x.acc[i].mid = p.id /\ Pending(c2, x.acc[i].d))
      first == IF p.qos = 0 THEN TRUE ELSE mine # <<>> /\ ~x.acc[mine[Len(mine)]].tx
  IN IF p.qos > 0 /\ mine = <<>> THEN r                         \* not a request of this automaton's table: C13's subject
     ELSE IF ~first THEN r                                      \* a repeat: C08's subject
     ELSE IF h = 0 THEN [r EXCEPT !.err = "C10.sent_but_never_accepted", !.info = <<a, p.qos, p.id>>]
     ELSE LET e == x.acc[h] IN
          IF ~(e.qos = p.qos /\ e.topic = p.topic /\ e.payload = p.payload /\ e.retain = p.retain /\ (p.qos = 0 \/ e.mid = p.id))
          THEN [r EXCEPT !.err = "C10.not_fifo", !.info = <<a, "expected", e.qos, e.mid, "written", p.qos, p.id>>]
          ELSE IF p.dup # 0 THEN [r EXCEPT !.err = "C10.first_transmission_with_dup", !.info = <<a, p.id>>]
          ELSE LET na == IF p.qos > 0 THEN {d \in x.noack \cup {e.d} : Pending(c2, d)} ELSE x.noack IN
               IF p.qos > 0 /\ Cardinality(na) > c.A[a].window
               THEN [r EXCEPT !.err = "C10.window_exceeded", !.info = <<a, Cardinality(na), c.A[a].window>>]
               ELSE [r EXCEPT !.x = [x EXCEPT !.acc[h].tx = TRUE, !.noack = na], !.hit = @ + 1]
RECURSIVE C10_Fold(_, _, _, _, _, _)
C10_Fold(r, c, c2, a, ws, i) == IF i > Len(ws) THEN r
                                ELSE C10_Fold(IF ws[i].p.t = "PUBLISH" /\ ws[i].a = a THEN C10_Write(r, c, c2, a, ws[i]) ELSE r, c, c2, a, ws, i + 1)
C10_Step(c, c2, g, ln) ==
  LET s == ln.stim IN
  IF "a" \notin DOMAIN s THEN
    \* a timer: only the writes matter (all addresses)
    LET ws == Writes(c2, ln)
        rs == [a \in Addrs |-> C10_Fold([x |-> g[a], err |-> "", info |-> <<>>, hit |-> 0], c, c2, a, ws, 1)]
        bad == {a \in Addrs : rs[a].err # ""}
    IN IF bad # {} THEN LET a == CHOOSE a \in bad : TRUE IN Bad2(g, rs[a].err, rs[a].info)
       ELSE Hit([a \in Addrs |-> rs[a].x], 0)
  ELSE
  LET a == s.a  k == c.A[a]  rets == Fx(ln, "ret")
      isPub == s.op = "publish" /\ rets # <<>>
      valid == isPub /\ PublishCheck(PubArgs(s))[1] = "ok" /\ AllowedOp("publish", k.st, ln) /\ k.tp = "open" /\ k.st \in {"connecting", "connected"}
      d == IF isPub THEN c2.D[rets[1].d] ELSE [st |-> "none"]
      accepted == isPub /\ PublishCheck(PubArgs(s))[1] = "ok" /\ d.st \in {"pending", "ok"}
      new == IF accepted THEN <<[d |-> rets[1].d, qos |-> s.qos.v, mid |-> rets[1].mid, topic |-> s.topic.v, payload |-> PayloadBytes(s.payload),
                                 retain |-> s.retain, tx |-> FALSE, drop |-> FALSE]>> ELSE <<>>
      inb == IF s.op = "recv" THEN Inbound(c, ln).acc ELSE <<>>
      acked == InbAcks(inb, "PUBACK") \cup InbAcks(inb, "PUBREC")
      x0 == g[a]
      x1 == [x0 EXCEPT !.acc = @ \o new,
                       !.noack = {h \in @ : ~(c.D[h].mid \in acked)}]
      r == C10_Fold([x |-> x1, err |-> "", info |-> <<>>, hit |-> 0], c, c2, a, Writes(c2, ln), 1)
      \* a clean session discards what was held back: at the loss of a clean connection, at an accepted clean connect()
      discard == (s.op = "lost" /\ k.clean = 1) \/ (s.op = "connect" /\ c2.A[a].st = "connecting" /\ k.st = "idle" /\ s.clean = 1)
      x2 == IF discard THEN [r.x EXCEPT !.acc = [i \in 1..Len(@) |-> IF @[i].tx THEN @[i] ELSE [@[i] EXCEPT !.drop = TRUE]],
                                        !.noack = IF Mid(ln) THEN {} ELSE @]     \* (interrupted purge: the errbacks are still to come)
            ELSE r.x
      waiting == C10_HeadPos(c2, x2.acc) # 0
      outstanding == \E i \in 1..Len(x2.acc) : x2.acc[i].qos > 0 /\ x2.acc[i].tx /\ Pending(c2, x2.acc[i].d)
      up == c2.A[a].st = "connected" /\ c2.A[a].tp = "open"
  IN IF r.err # "" THEN Bad2(g, r.err, r.info)
     ELSE FirstBad([g EXCEPT ![a] = x2],
            << <<~valid \/ d.st # "fail", "C10.publish_refused", <<a, d.st, IF d.st = "fail" THEN d.exc ELSE "">> >>,
               <<~(up /\ waiting) \/ outstanding \/ Mid(ln) \/ Nested(ln), "C10.stranded", <<a, s.op>> >> >>,
            r.hit + (IF up /\ waiting THEN 1 ELSE 0))
C10_End(c, g) == OKr(g)

-----------------------------------------------------------------------------
(* C09  QoS 2 sender order: PUBREL only after PUBREC, no PUBLISH again after PUBREL *)
\* ghost: QoS 2 requests [d, a, mid, phase, rec]
C09_Write(r, c2, w) ==
  IF r.err # "" THEN r ELSE
  LET p == w.p
      isP2 == p.t = "PUBLISH" /\ p.qos = 2
      isRel == p.t = "PUBREL"
      mine == SelectSeq([i \in 1..Len(r.q) |-> i], LAMBDA i : r.q[i].a = w.a /\ r.q[i].mid = p.id /\ Pending(c2, r.q[i].d))
      \* exchanges of this identifier that were unfinished when the line began (or were requested in it)
      \* (QoS 1 requests count too: the code answers a PUBREC for one of them with PUBREL, which this property does not forbid)
      live == \E h \in r.pre : c2.D[h].a = w.a /\ c2.D[h].mid = p.id
  IN IF isRel /\ ~live THEN [r EXCEPT !.err = "C09.pubrel_outside_exchange", !.info = <<w.a, p.id>>]     \* e.g. after its PUBCOMP
     ELSE IF ~(isP2 \/ isRel) \/ mine = <<>> THEN r
     ELSE LET i == mine[Len(mine)]  e == r.q[i] IN
          \* (any unfinished exchange of this identifier that has reached its PUBREL forbids the PUBLISH: the identifier
          \*  becomes free only on PUBCOMP or when the session is discarded)
          IF isP2 THEN (IF \E j \in 1..Len(mine) : r.q[mine[j]].phase = "rel" THEN [r EXCEPT !.err = "C09.publish_after_pubrel", !.info = <<w.a, p.id>>]
                        ELSE [r EXCEPT !.q[i].phase = "pub", !.hit = @ + 1])
          ELSE (IF (e.phase = "pub" /\ e.rec) \/ e.phase = "rel" THEN [r EXCEPT !.q[i].phase = "rel", !.hit = @ + 1]
                ELSE [r EXCEPT !.err = "C09.pubrel_without_pubrec", !.info = <<w.a, p.id, e.phase>>])
RECURSIVE C09_Fold(_, _, _, _)
C09_Fold(r, c2, ws, i) == IF i > Len(ws) THEN r ELSE C09_Fold(C09_Write(r, c2, ws[i]), c2, ws, i + 1)
C09_Step(c, c2, g, ln) ==
  LET s == ln.stim  rets == Fx(ln, "ret")
      new == IF s.op = "publish" /\ rets # <<>> /\ s.qos.ty = "int" /\ s.qos.v = 2 /\ c2.D[rets[1].d].st = "pending"
             THEN <<[d |-> rets[1].d, a |-> s.a, mid |-> rets[1].mid, phase |-> "new", rec |-> FALSE]>> ELSE <<>>
      inb == IF s.op = "recv" THEN Inbound(c, ln).acc ELSE <<>>
      recs == InbAcks(inb, "PUBREC")
      q1 == [i \in 1..Len(g) |-> IF s.op = "recv" /\ g[i].a = s.a /\ g[i].mid \in recs /\ g[i].phase = "pub" /\ Pending(c, g[i].d)
                                 THEN [g[i] EXCEPT !.rec = TRUE] ELSE g[i]] \o new
      pre == {h \in 1..Len(c2.D) : IsPubReq(c2.D[h]) /\ (h > Len(c.D) \/ Pending(c, h))}
      r == C09_Fold([q |-> q1, pre |-> pre, err |-> "", info |-> <<>>, hit |-> 0], c2, Writes(c2, ln), 1)
  IN IF r.err # "" THEN Bad2(g, r.err, r.info) ELSE Hit(r.q, r.hit)
C09_End(c, g) == OKr(g)

-----------------------------------------------------------------------------
(* C17  Packet identifiers are 1..65535 and never shared by two unfinished requests *)
C17_Step(c, c2, g, ln) ==
  LET rets == Fx(ln, "ret")  ws == Writes(c2, ln)
      newReq == SelectSeq(rets, LAMBDA e : IsReq(c2.D[e.d]) /\ c2.D[e.d].st = "pending")
      shared(e) == \E d \in 1..Len(c2.D) : d # e.d /\ IsReq(c2.D[d]) /\ c2.D[d].st = "pending" /\ c2.D[d].mid = e.mid
      idw == SelectSeq(ws, LAMBDA w : (w.p.t = "PUBLISH" /\ w.p.qos > 0) \/ w.p.t \in {"PUBREL", "SUBSCRIBE", "UNSUBSCRIBE"})
  IN FirstBad(g,
       << <<\A i \in 1..Len(newReq) : newReq[i].mid \in 1..65535, "C17.msgid_out_of_range", <<IF newReq # <<>> THEN newReq[1].mid ELSE 0>> >>,
          <<\A i \in 1..Len(newReq) : ~shared(newReq[i]), "C17.id_shared_by_unfinished_requests", <<IF newReq # <<>> THEN newReq[1].mid ELSE 0>> >>,
          <<\A i \in 1..Len(idw) : idw[i].p.id \in 1..65535, "C17.wire_id_out_of_range", <<>> >> >>,
       Len(newReq))
C17_End(c, g) == OKr(g)


-----------------------------------------------------------------------------
(* which unfinished request a written packet belongs to (0 = none), and its class *)
WClass(p) == CASE p.t = "PUBLISH" /\ p.qos > 0 -> "pub" [] p.t = "PUBREL" -> "rel" [] p.t = "SUBSCRIBE" -> "sub" [] p.t = "UNSUBSCRIBE" -> "unsub" [] OTHER -> ""
FitsOp(e, cls, p) == CASE cls = "pub" -> IsPubReq(e) /\ e.stim.qos.v = p.qos
                       [] cls = "rel" -> IsPubReq(e)     \* also QoS 1: a broker answering PUBREC to a QoS 1 PUBLISH is outside the quantifiers, not a stray write
                       [] cls = "sub" -> e.op = "subscribe"
                       [] cls = "unsub" -> e.op = "unsubscribe"
                       [] OTHER -> FALSE
ReqOf(c, c2, ln, a, p) ==
  LET cls == WClass(p)
      ds == {d \in 1..Len(c2.D) : c2.D[d].a = a /\ c2.D[d].mid = p.id /\ FitsOp(c2.D[d], cls, p) /\ (Pending(c, d) \/ (c2.D[d].n = ln.n /\ c2.D[d].mid >= 1))}
  IN IF cls = "" \/ ds = {} THEN 0 ELSE CHOOSE d \in ds : \A e \in ds : e <= d
\* the write effects of a line with their position in fx:  [i, a, g, p, bytes, d, cls]
WritesAt(c, c2, ln) ==
  LET pos == Where(ln.fx, LAMBDA e : e.k = "write") IN
  [j \in 1..Len(pos) |->
     LET e == ln.fx[pos[j]]  p == WPkt(c2, e) IN
     [i |-> pos[j], a |-> e.c[1], g |-> e.c[2], p |-> p, bytes |-> e.bytes, cls |-> WClass(p),
      d |-> IF WClass(p) = "" THEN 0 ELSE ReqOf(c, c2, ln, e.c[1], p)]]
\* timers armed in this line: [tm, delay, fn, own = <<d, cls>> of the packet written right after the arm, or <<0, "">>]
ArmsAt(c, c2, ln, ws) ==
  LET pos == Where(ln.fx, LAMBDA e : e.k = "arm") IN
  [j \in 1..Len(pos) |->
     LET e == ln.fx[pos[j]]
         nxt == SelectSeq(ws, LAMBDA w : w.i = pos[j] + 1)
     IN [tm |-> e.tm, delay |-> e.delay, fn |-> e.label.fn, at |-> ln.t + e.delay, cg |-> 0,
         own |-> IF nxt # <<>> /\ nxt[1].d # 0 THEN <<nxt[1].d, nxt[1].cls>> ELSE <<0, "">>]]
CancelledIn(ln) == {e.tm : e \in SeqSet(Fx(ln, "cancel"))}
FiredIn(ln) == IF ln.stim.op = "fire" THEN {ln.stim.tm} ELSE {}
OneAddr(c) == c.A["B"].st = "none"

-----------------------------------------------------------------------------
(* C13  Settled requests and lost connections stay silent: no stray timers or writes *)
\* ghost: pend = pending timers (records of ArmsAt), connTm = handle armed by the accepted connect() per address,
\*        L = per address what remains to be watched after a loss [aw, old]
C13_0 == [pend |-> {}, connTm |-> [a \in Addrs |-> 0], L |-> [a \in Addrs |-> [aw |-> {}, old |-> {}, on |-> FALSE]]]
C13_Step(c, c2, g, ln) ==
  LET s == ln.stim
      ws == WritesAt(c, c2, ln)
      arms == ArmsAt(c, c2, ln, ws)
      gone == CancelledIn(ln) \cup FiredIn(ln)
      \* cg: the connection of address A during which the timer was armed (used only in one-address traces)
      pend1 == {t \in g.pend : t.tm \notin gone} \cup {[arms[i] EXCEPT !.cg = c2.A["A"].g] : i \in 1..Len(arms)}
      pendH == {t.tm : t \in pend1}
      connTm1 == IF s.op = "connect" /\ c2.A[s.a].st = "connecting" /\ c.A[s.a].st = "idle" /\ arms # <<>>
                 THEN [g.connTm EXCEPT ![s.a] = arms[1].tm] ELSE g.connTm
      isNotif(t) == t.fn = "app_onDisconnection"
      \* what to watch after a loss: the notification of this loss and the CONNACK timeout are awaited, everything else must be gone by then
      L1 == [a \in Addrs |->
               IF s.op = "lost" /\ s.a = a
               THEN LET aw == {t.tm : t \in {x \in pend1 : isNotif(x) \/ x.tm = connTm1[a]}} IN
                    [aw |-> aw, old |-> {t.tm : t \in {x \in pend1 : x.cg = c.A[a].g}} \ aw, on |-> TRUE]
               ELSE [aw |-> g.L[a].aw \cap pendH, old |-> g.L[a].old \cap pendH, on |-> g.L[a].on]]
      reqWrites == SelectSeq(ws, LAMBDA w : w.cls # "")
      owners == {t.own : t \in {x \in pend1 : x.own[1] # 0}}
      dupOwner == \E t1, t2 \in pend1 : t1.tm # t2.tm /\ t1.own[1] # 0 /\ t1.own = t2.own
      anyPending == \E d \in 1..Len(c2.D) : c2.D[d].st = "pending"
      quietA == OneAddr(c2) /\ c2.A["A"].st = "connected" /\ c2.A["A"].tp = "open" /\ c2.A["A"].ka = 0 /\ ~anyPending
      stray == {t \in pend1 : ~isNotif(t) /\ ~(t.tm \in {g.connTm[a] : a \in Addrs} /\ t.tm # connTm1["A"])}
      lateWrites == SelectSeq(ws, LAMBDA w : w.g # c.A[w.a].g \/ c.A[w.a].tp = "lost")
      g1 == [pend |-> pend1, connTm |-> connTm1, L |-> L1]
  IN FirstBad(g1,
       << <<\A i \in 1..Len(reqWrites) : reqWrites[i].d # 0, "C13.write_for_settled_request",
              <<IF reqWrites # <<>> THEN <<reqWrites[1].a, reqWrites[1].p.t, reqWrites[1].p.id>> ELSE <<>>, s.op>> >>,
          <<~dupOwner, "C13.two_timers_for_one_packet", <<s.op>> >>,
          <<~quietA \/ stray = {}, "C13.stray_timer_while_idle", <<{t.fn : t \in stray}>> >>,
          <<lateWrites = <<>>, "C13.write_after_lost", <<s.op>> >>,
          <<~OneAddr(c2) \/ \A a \in Addrs : ~(L1[a].on /\ L1[a].aw = {} /\ L1[a].old # {}), "C13.timer_survives_lost_connection",
              <<{t.fn : t \in {x \in pend1 : x.tm \in L1["A"].old}}>> >> >>,
       Len(reqWrites) + Len(arms) + (IF quietA THEN 1 ELSE 0) + (IF s.op = "lost" THEN 1 ELSE 0))
C13_End(c, g) == OKr(g)

-----------------------------------------------------------------------------
(* C08  Unacknowledged packets are resent on every timer expiry, DUP set, same content *)
\* ghost: X = retransmittable packets of unfinished requests: [d, cls, a, g, first, initT, txs, tm, ver]
C08_Get(X, d, cls) == LET ps == SelectSeq([i \in 1..Len(X) |-> i], LAMBDA i : X[i].d = d /\ X[i].cls = cls) IN IF ps = <<>> THEN 0 ELSE ps[1]
SameButDup(b1, b2) == Len(b1) = Len(b2) /\ \A i \in 2..Len(b1) : b1[i] = b2[i]
                      /\ (b1[1] \div 16) = (b2[1] \div 16) /\ (b1[1] % 8) = (b2[1] % 8)
\* one request packet written;  r = [X, err, info, hit]
C08_Write(r, c, c2, ln, w, arms) ==
  IF r.err # "" \/ w.d = 0 THEN r ELSE
  LET i == C08_Get(r.X, w.d, w.cls)
      myArm == SelectSeq(arms, LAMBDA t : t.own = <<w.d, w.cls>>)
      tm == IF myArm = <<>> THEN 0 ELSE myArm[Len(myArm)].tm
      dup == w.p.dup
      k == c.A[w.a]
  IN IF i = 0 THEN
       \* first transmission of this packet
       [r EXCEPT !.X = Append(@, [d |-> w.d, cls |-> w.cls, a |-> w.a, g |-> w.g, first |-> w.bytes, initT |-> k.initT,
                                  txs |-> <<ln.t>>, tm |-> tm, n |-> 1]),
                 !.err = IF w.cls # "pub" /\ dup # 0 THEN "C08.dup_on_first_transmission" ELSE "", !.info = <<w.cls, w.p.id>>]
     ELSE
       LET x == r.X[i]
           byTimer == ln.stim.op = "fire" /\ ln.stim.tm = x.tm /\ w.g = x.g
           byResume == ln.stim.op = "recv" /\ w.g > x.g /\ c.A[w.a].st = "connecting" /\ c2.A[w.a].st = "connected"
           dupWant == IF w.cls = "pub" THEN 1 ELSE IF k.ver = 3 THEN 1 ELSE 0
           gap == ln.t - x.txs[Len(x.txs)]
           prevGap == IF Len(x.txs) >= 2 THEN x.txs[Len(x.txs)] - x.txs[Len(x.txs) - 1] ELSE 0
           x2 == [x EXCEPT !.txs = IF w.g = x.g THEN Append(@, ln.t) ELSE <<ln.t>>, !.g = w.g, !.tm = tm, !.n = @ + 1]
           err == IF ~(byTimer \/ byResume) THEN "C08.repeated_without_expiry"
                  ELSE IF ~SameButDup(x.first, w.bytes) THEN "C08.content_changed"
                  ELSE IF dup # dupWant THEN "C08.dup_wrong"
                  ELSE IF byTimer /\ gap < 1024 * x.initT THEN "C08.repeated_too_early"
                  \* (runs with the library's own random jitter in [0, 1 s): a gap may be up to one second shorter than the last)
                  ELSE IF byTimer /\ w.cls = "pub" /\ gap + (IF Jittered(ln) THEN 1024 ELSE 0) < prevGap THEN "C08.gap_shrinks"
                  ELSE ""
       IN [r EXCEPT !.X[i] = x2, !.err = err, !.info = <<w.cls, w.p.id, dup, gap, prevGap, ln.stim.op>>, !.hit = @ + 1]
RECURSIVE C08_Fold(_, _, _, _, _, _, _)
C08_Fold(r, c, c2, ln, ws, arms, i) == IF i > Len(ws) THEN r ELSE C08_Fold(C08_Write(r, c, c2, ln, ws[i], arms), c, c2, ln, ws, arms, i + 1)
C08_Step(c, c2, g, ln) ==
  LET s == ln.stim
      ws == WritesAt(c, c2, ln)
      arms == ArmsAt(c, c2, ln, ws)
      \* the expiry of the timer of an unacknowledged packet on a connection that is up obliges a retransmission
      due == IF s.op = "fire" THEN SelectSeq(g, LAMBDA x : x.tm = s.tm /\ Pending(c, x.d)) ELSE <<>>
      obliged == due # <<>> /\ LET x == due[1]  k == c.A[x.a] IN
                    /\ k.g = x.g /\ k.tp = "open" /\ k.st \in {"connecting", "connected"}
                    /\ (x.cls = "pub" => TRUE)
      done == due # <<>> /\ LET x == due[1] IN
                Count(ws, LAMBDA w : w.d = x.d /\ w.cls = x.cls) = 1 /\ Count(arms, LAMBDA t : t.own = <<x.d, x.cls>>) = 1
      r == C08_Fold([X |-> g, err |-> "", info |-> <<>>, hit |-> 0], c, c2, ln, ws, arms, 1)
      \* forget packets whose request is settled (their identifiers may be reused)
      X2 == SelectSeq(r.X, LAMBDA x : Pending(c2, x.d) /\ ~(x.cls = "pub" /\ \E i \in 1..Len(r.X) : r.X[i].d = x.d /\ r.X[i].cls = "rel"))
  IN IF r.err # "" THEN Bad2(g, r.err, r.info)
     ELSE FirstBad(X2,
            << <<~obliged \/ done, "C08.not_retransmitted_on_expiry", <<IF due # <<>> THEN <<due[1].cls, c.D[due[1].d].mid>> ELSE <<>> >> >>,
               <<~(due # <<>> /\ Raised(ln)), "C08.exception_in_retry_timer", <<IF Raised(ln) THEN LogExc(Fx(ln, "raise")[1]) ELSE "">> >> >>,
            r.hit + (IF obliged THEN 1 ELSE 0))
C08_End(c, g) == OKr(g)


-----------------------------------------------------------------------------
(* C06  Inbound PUBLISH: faithful delivery, QoS 2 exactly once, every packet answered *)
\* ghost per address: held = sequence of [id, copies (set of argument records), soft]
C06_0 == [a \in Addrs |-> <<>>]
PArgs(p) == [topic |-> p.topic, payload |-> p.payload, qos |-> p.qos, dup |-> p.dup, retain |-> p.retain, id |-> p.id]
CbArgs(e) == [topic |-> e.topic, payload |-> e.payload, qos |-> e.qos, dup |-> e.dup, retain |-> e.retain, id |-> e.id]
HeldPos(h, id) == LET ps == SelectSeq([i \in 1..Len(h) |-> i], LAMBDA i : h[i].id = id) IN IF ps = <<>> THEN 0 ELSE ps[1]
\* expected reactions to the inbound packets of a chunk: r = [h, acks (seq of <<type, id>>), cbs (seq of [set of allowed argument records, opt])]
RECURSIVE C06_Expect(_, _, _, _)
C06_Expect(r, inb, i, hPub) ==
  IF i > Len(inb) THEN r ELSE
  LET p == inb[i].p IN
  IF p.t = "PUBLISH" THEN
     IF p.qos = 0 THEN C06_Expect([r EXCEPT !.cbs = IF hPub = 1 THEN Append(@, [any |-> {PArgs(p)}, opt |-> FALSE]) ELSE @], inb, i + 1, hPub)
     ELSE IF p.qos = 1 THEN C06_Expect([r EXCEPT !.acks = Append(@, <<"PUBACK", p.id>>),
                                                  !.cbs = IF hPub = 1 THEN Append(@, [any |-> {PArgs(p)}, opt |-> FALSE]) ELSE @], inb, i + 1, hPub)
     ELSE LET k == HeldPos(r.h, p.id)
              h2 == IF k = 0 THEN Append(r.h, [id |-> p.id, copies |-> {PArgs(p)}, soft |-> FALSE])
                    \* a repetition (same message, DUP aside) adds a copy; a different message under the identifier is a new
                    \* exchange (the broker has given up the old one): it is the one that has to be delivered
                    ELSE IF \E x \in r.h[k].copies : [x EXCEPT !.dup = 0] = [PArgs(p) EXCEPT !.dup = 0]
                         THEN [r.h EXCEPT ![k].copies = @ \cup {PArgs(p)}, ![k].soft = FALSE]
                         ELSE [r.h EXCEPT ![k].copies = {PArgs(p)}, ![k].soft = FALSE]
          IN C06_Expect([r EXCEPT !.h = h2, !.acks = Append(@, <<"PUBREC", p.id>>)], inb, i + 1, hPub)
  ELSE IF p.t = "PUBREL" THEN
     LET k == HeldPos(r.h, p.id) IN
     C06_Expect([r EXCEPT !.h = IF k = 0 THEN @ ELSE SelectSeq(@, LAMBDA x : x.id # p.id),
                          !.acks = Append(@, <<"PUBCOMP", p.id>>),
                          !.cbs = IF k # 0 /\ hPub = 1 THEN Append(@, [any |-> r.h[k].copies, opt |-> r.h[k].soft]) ELSE @], inb, i + 1, hPub)
  ELSE C06_Expect(r, inb, i + 1, hPub)
\* actual callbacks against expected ones (optional ones may be missing)
RECURSIVE CbMatch(_, _)
CbMatch(exp, act) ==
  IF exp = <<>> THEN act = <<>>
  ELSE IF act # <<>> /\ CbArgs(act[1]) \in exp[1].any THEN CbMatch(Tail(exp), Tail(act))
  ELSE exp[1].opt /\ CbMatch(Tail(exp), act)
C06_Step(c, c2, g, ln) ==
  LET s == ln.stim
      ws == Writes(c2, ln)
      ackw == SelectSeq(ws, LAMBDA w : w.p.t \in {"PUBACK", "PUBREC", "PUBCOMP"})
      cbs == SelectSeq(Fx(ln, "cb"), LAMBDA e : e.name = "onPublish")
  IN
  IF s.op # "recv" THEN
     \* never unprompted; a clean connect makes the held copies optional
     LET g1 == IF s.op = "connect" /\ c2.A[s.a].st = "connecting" /\ c.A[s.a].st = "idle" /\ s.clean = 1
               THEN [g EXCEPT ![s.a] = [i \in 1..Len(@) |-> [@[i] EXCEPT !.soft = TRUE]]] ELSE g
     IN FirstBad(g1, << <<ackw = <<>>, "C06.unprompted_acknowledgement", <<s.op, IF ackw # <<>> THEN ackw[1].p.t ELSE "">> >>,
                        <<cbs = <<>>, "C06.unprompted_delivery", <<s.op>> >> >>, 0)
  ELSE
     LET a == s.a  k == c.A[a]
         inb == Inbound(c, ln).acc
         relevant == SelectSeq(inb, LAMBDA x : x.p.t \in {"PUBLISH", "PUBREL"})
         \* obliged: strictly well-formed, connected, subscribing profile, no close requested
         obliged(x) == ~IsBad(DecodeStrict(x.raw, k.ver)) /\ x.st = "connected" /\ SubCap(ln) /\ k.tp = "open"
         allObliged == \A i \in 1..Len(relevant) : obliged(relevant[i])
         ex == C06_Expect([h |-> g[a], acks |-> <<>>, cbs |-> <<>>], relevant, 1, k.hPub)
         actAcks == [i \in 1..Len(ackw) |-> <<ackw[i].p.t, ackw[i].p.id>>]
         \* justification only (some packet was not obliging): every ack / delivery answers a packet of this chunk or a held copy
         justAck(x) == \E i \in 1..Len(relevant) : relevant[i].p.id = x[2] /\
                          ((x[1] = "PUBACK" /\ relevant[i].p.t = "PUBLISH" /\ relevant[i].p.qos = 1) \/ (x[1] = "PUBREC" /\ relevant[i].p.t = "PUBLISH" /\ relevant[i].p.qos = 2)
                           \/ (x[1] = "PUBCOMP" /\ relevant[i].p.t = "PUBREL"))
         justCb(e) == \/ \E i \in 1..Len(relevant) : relevant[i].p.t = "PUBLISH" /\ PArgs(relevant[i].p) = CbArgs(e)
                      \/ \E i \in 1..Len(g[a]) : CbArgs(e) \in g[a][i].copies
     IN IF allObliged
        THEN FirstBad([g EXCEPT ![a] = ex.h],
               << <<actAcks = ex.acks, "C06.acknowledgements_differ", <<"expected", ex.acks, "written", actAcks>> >>,
                  <<CbMatch(ex.cbs, cbs), "C06.delivery_differs", <<"expected", Len(ex.cbs), "delivered", Len(cbs)>> >> >>, Len(relevant))
        ELSE FirstBad([g EXCEPT ![a] = ex.h],
               << <<\A i \in 1..Len(actAcks) : justAck(actAcks[i]), "C06.unprompted_acknowledgement", <<"recv", actAcks>> >>,
                  <<\A i \in 1..Len(cbs) : justCb(cbs[i]), "C06.unprompted_delivery", <<"recv">> >> >>, 0)
C06_End(c, g) == OKr(g)

-----------------------------------------------------------------------------
(* C07  subscribe()/unsubscribe(): one request per call, matched by id, window enforced *)
\* ghost: owed = handles of requests that were pending when their connection was lost and were not failed there
C07_0 == [owed |-> {}]
SubKind(e) == e.op \in {"subscribe", "unsubscribe"}
C07_Step(c, c2, g, ln) ==
  LET s == ln.stim  rets == Fx(ln, "ret")  fires == Fx(ln, "fire")  ws == Writes(c2, ln)
      isCall == s.op \in {"subscribe", "unsubscribe"} /\ rets # <<>>
      d == IF isCall THEN c2.D[rets[1].d] ELSE [st |-> "none", mid |-> -1]
      k == IF "a" \in DOMAIN s THEN c.A[s.a] ELSE NoA
      nt == IF s.op = "subscribe" THEN SubTopics(s.arg, s.qos) ELSE IF s.op = "unsubscribe" THEN UnsubTopics(s.arg) ELSE [ok |-> FALSE, ts |-> <<>>]
      validArgs == isCall /\ nt.ok /\ (s.op = "unsubscribe" \/ \A i \in 1..Len(nt.ts) : nt.ts[i][2] \in 0..2)
                   /\ \A i \in 1..Len(nt.ts) : TextOK(IF s.op = "subscribe" THEN nt.ts[i][1] ELSE nt.ts[i])
      allowed == isCall /\ AllowedOp(s.op, k.st, ln) /\ k.tp = "open"
      npend == IF isCall THEN Cardinality({h \in 1..Len(c.D) : c.D[h].op = s.op /\ c.D[h].a = s.a /\ c.D[h].st = "pending"}) ELSE 0
      out == IF isCall THEN Outcome(c2, ln) ELSE ""
      accepted == isCall /\ d.st = "pending"
      wantPkt == IF s.op = "subscribe" THEN [t |-> "SUBSCRIBE", id |-> d.mid, dup |-> 0, topics |-> nt.ts]
                 ELSE [t |-> "UNSUBSCRIBE", id |-> d.mid, dup |-> 0, topics |-> nt.ts]
      inb == IF s.op = "recv" THEN Inbound(c, ln).acc ELSE <<>>
      okFires == SelectSeq(fires, LAMBDA e : e.ok = 1 /\ e.d <= Len(c.D) /\ SubKind(c.D[e.d]))
      subFires == SelectSeq(fires, LAMBDA e : e.d <= Len(c.D) /\ SubKind(c.D[e.d]))
      okJust(e) == LET r == c.D[e.d] IN
                   s.op = "recv" /\ s.a = r.a /\
                   \E i \in 1..Len(inb) : inb[i].p.id = r.mid /\
                      IF r.op = "subscribe" THEN inb[i].p.t = "SUBACK" /\ e.val = [ty |-> "granted", v |-> inb[i].p.granted]
                      ELSE inb[i].p.t = "UNSUBACK" /\ e.val = [ty |-> "int", v |-> r.mid]
      \* a chunk made only of SUBACK / UNSUBACK packets whose identifiers match no pending request of the kind
      foreignOnly == inb # <<>> /\ \A i \in 1..Len(inb) :
                        inb[i].p.t \in {"SUBACK", "UNSUBACK"} /\
                        ~\E h \in 1..Len(c.D) : c.D[h].st = "pending" /\ c.D[h].a = s.a /\ c.D[h].mid = inb[i].p.id
                                                /\ c.D[h].op = (IF inb[i].p.t = "SUBACK" THEN "subscribe" ELSE "unsubscribe")
      \* loss: pending requests of the address that are not failed in this line are owed a retransmission
      owedNew == IF s.op = "lost" THEN {h \in 1..Len(c2.D) : SubKind(c2.D[h]) /\ c2.D[h].a = s.a /\ c2.D[h].st = "pending"} ELSE {}
      resumeLine == s.op = "recv" /\ c.A[s.a].st = "connecting" /\ c2.A[s.a].st = "connected"
      owedHere == {h \in g.owed : c2.D[h].a = (IF "a" \in DOMAIN s THEN s.a ELSE "") /\ c2.D[h].st = "pending"}
      resent(h) == LET r == c2.D[h]
                       tsr == IF r.op = "subscribe" THEN SubTopics(r.stim.arg, r.stim.qos).ts ELSE UnsubTopics(r.stim.arg).ts IN
                   \E i \in 1..Len(ws) : ws[i].a = r.a /\ ws[i].p.t = (IF r.op = "subscribe" THEN "SUBSCRIBE" ELSE "UNSUBSCRIBE")
                                         /\ ws[i].p.id = r.mid /\ ws[i].p.topics = tsr
      owed2 == IF resumeLine THEN {h \in g.owed : c2.D[h].a # s.a} ELSE {h \in g.owed \cup owedNew : c2.D[h].st = "pending"}
  IN FirstBad([owed |-> owed2],
       << <<~accepted \/ (Len(ws) = 1 /\ ws[1].a = s.a /\ ws[1].p = wantPkt /\ d.mid >= 1), "C07.request_packet_wrong", <<s.op, d.mid>> >>,
          <<~(validArgs /\ allowed /\ npend >= k.window) \/ (out = "MQTTWindowError" /\ NoEffect(ln)), "C07.window_not_enforced", <<s.op, npend, k.window, out>> >>,
          <<~(validArgs /\ allowed /\ npend < k.window) \/ out # "MQTTWindowError", "C07.window_error_below_window", <<s.op, npend, k.window>> >>,
          <<\A i \in 1..Len(subFires) : c.D[subFires[i].d].st = "pending", "C07.fired_twice", <<>> >>,
          <<IsContL(ln) \/ \A i \in 1..Len(okFires) : okJust(okFires[i]), "C07.success_without_matching_ack", <<IF okFires # <<>> THEN okFires[1] ELSE <<>> >> >>,
          <<~foreignOnly \/ ln.fx = <<>>, "C07.foreign_ack_had_effect", <<>> >>,
          <<~resumeLine \/ \A h \in owedHere : resent(h), "C07.request_neither_failed_nor_resent", <<owedHere>> >> >>,
       (IF isCall THEN 1 ELSE 0) + Len(subFires) + (IF resumeLine /\ owedHere # {} THEN 1 ELSE 0))
\* a drained history leaves no request pending whose connection has gone
C07_End(c, g) == OKr(g)

-----------------------------------------------------------------------------
(* C11  Clean session: connection loss fails everything pending and nothing carries over *)
\* ghost per address: prevClean = the connection that ended last had been opened clean
C11_0 == [a \in Addrs |-> [prevClean |-> FALSE, snap |-> {}, reason |-> "", n0 |-> 0]]
C11_Step(c, c2, g, ln) ==
  LET s == ln.stim  fires == Fx(ln, "fire") IN
  IF s.op = "lost" \/ (IsContL(ln) /\ s.of = "lost") THEN
    LET first == s.op = "lost"
        k == c.A[s.a]
        opened == IF first THEN k.cd # 0 /\ k.clean = 1 ELSE g[s.a].prevClean
        \* the requests pending before the loss was reported (remembered over the segments of an interrupted stimulus)
        pend == IF first THEN {h \in 1..Len(c.D) : IsReq(c.D[h]) /\ c.D[h].a = s.a /\ c.D[h].st = "pending"} ELSE g[s.a].snap
        reason == IF first THEN s.reason ELSE g[s.a].reason
        n0 == IF first THEN ln.n ELSE g[s.a].n0
        failedOnce(h) == c2.D[h].st = "fail" /\ c2.D[h].exc = reason /\ c2.D[h].fn >= n0
    IN FirstBad([g EXCEPT ![s.a] = [prevClean |-> opened, snap |-> pend, reason |-> reason, n0 |-> n0]],
         << <<~(opened /\ ~Mid(ln)) \/ \A h \in pend : failedOnce(h), "C11.pending_not_failed_with_reason",
               <<{<<c.D[h].op, c.D[h].mid>> : h \in {x \in pend : ~failedOnce(x)}}>> >>,
            <<\A i \in 1..Len(fires) : fires[i].d > Len(c.D) \/ c.D[fires[i].d].st = "pending", "C11.failed_twice", <<>> >> >>,
         IF opened /\ ~Mid(ln) THEN 1 + Cardinality(pend) ELSE 0)
  ELSE
    \* on the connection that follows a clean one every request packet belongs to a request accepted on it
    LET ws == WritesAt(c, c2, ln)
        carried(w) == g[w.a].prevClean /\ w.g > 1 /\ c.A[w.a].tp # "lost" /\
                        \/ (w.cls # "" /\ w.d # 0 /\ c2.D[w.d].g < w.g)
                        \/ (w.cls # "" /\ w.d = 0)
                        \/ (w.p.t = "PUBLISH" /\ w.p.qos = 0 /\
                            ~\E h \in 1..Len(c2.D) : c2.D[h].op = "publish" /\ c2.D[h].a = w.a /\ c2.D[h].g = w.g /\ c2.D[h].stim.qos.ty = "int" /\ c2.D[h].stim.qos.v = 0
                                                     /\ c2.D[h].stim.topic.ty = "str" /\ c2.D[h].stim.topic.v = w.p.topic)
        bad == SelectSeq(ws, carried)
    IN FirstBad(g, << <<bad = <<>>, "C11.carried_over_to_next_connection", <<IF bad # <<>> THEN <<bad[1].p.t, bad[1].a>> ELSE <<>> >> >> >>,
                 IF \E a \in Addrs : g[a].prevClean THEN Len(ws) ELSE 0)
C11_End(c, g) == OKr(g)

-----------------------------------------------------------------------------
(* C12  Persistent session: in-flight publishes survive loss, resume on next connection *)
\* ghost: R = publish requests (QoS>0): [d, a, g, tx (PUBLISH written), rel (PUBREL written)]
C12_Step(c, c2, g, ln) ==
  LET s == ln.stim  rets == Fx(ln, "ret")  fires == Fx(ln, "fire")  ws == WritesAt(c, c2, ln)
      new == IF s.op = "publish" /\ rets # <<>> /\ IsPubReq(c2.D[rets[1].d]) /\ c2.D[rets[1].d].st = "pending"
             THEN <<[d |-> rets[1].d, a |-> s.a, g |-> c.A[s.a].g, tx |-> FALSE, rel |-> FALSE, txg |-> 0]>> ELSE <<>>
      R0 == g \o new
      \* the state of every request BEFORE the writes of this line (used by the resume clauses)
      wrote(x, cls) == \E i \in 1..Len(ws) : ws[i].d = x.d /\ ws[i].cls = cls
      \* txg: the connection on which the request was last written (PUBLISH or PUBREL)
      R1 == [i \in 1..Len(R0) |-> [R0[i] EXCEPT !.tx = @ \/ wrote(R0[i], "pub"), !.rel = @ \/ wrote(R0[i], "rel"),
                                                 !.txg = IF wrote(R0[i], "pub") \/ wrote(R0[i], "rel") THEN c.A[R0[i].a].g ELSE @]]
      R2 == SelectSeq(R1, LAMBDA x : Pending(c2, x.d))
      isPubD(e) == e.d <= Len(c2.D) /\ IsPubReq(c2.D[e.d])
      a == IF "a" \in DOMAIN s THEN s.a ELSE ""
      k == IF a # "" THEN c.A[a] ELSE NoA
      \* loss of a persistent connection
      lossBad == s.op = "lost" /\ k.cd # 0 /\ k.clean = 0 /\ \E i \in 1..Len(fires) : isPubD(fires[i]) /\ c2.D[fires[i].d].a = a
      \* CONNACK(0) of the next connection
      resumeLine == s.op = "recv" /\ k.st = "connecting" /\ c2.A[a].st = "connected"
      inherited == SelectSeq(g, LAMBDA x : x.a = a /\ x.g < k.g /\ Pending(c, x.d))
      fresh == SelectSeq(g, LAMBDA x : x.a = a /\ x.g = k.g /\ Pending(c, x.d))
      pubW(x) == SelectSeq(ws, LAMBDA w : w.d = x.d /\ w.cls = "pub")
      relW(x) == SelectSeq(ws, LAMBDA w : w.d = x.d /\ w.cls = "rel")
      req(x) == c.D[x.d]
      resumeOK(x) ==
        IF x.txg = k.g THEN pubW(x) = <<>> /\ (x.rel \/ relW(x) = <<>>)     \* already written on this connection: not again
        ELSE IF x.rel THEN Len(relW(x)) = 1 /\ pubW(x) = <<>>
        ELSE IF x.tx THEN /\ Len(pubW(x)) = 1 /\ relW(x) = <<>>
                          /\ LET p == pubW(x)[1].p IN p.dup = 1 /\ p.id = req(x).mid /\ p.qos = req(x).stim.qos.v
                                                     /\ p.topic = req(x).stim.topic.v /\ p.payload = PayloadBytes(req(x).stim.payload)
        ELSE relW(x) = <<>> /\ Len(pubW(x)) <= 1 /\ (pubW(x) # <<>> => pubW(x)[1].p.dup = 0)
      \* original relative order of the re-sent PUBLISH packets
      resentIdx == [i \in 1..Len(inherited) |-> IF inherited[i].tx /\ ~inherited[i].rel /\ pubW(inherited[i]) # <<>> THEN pubW(inherited[i])[1].i ELSE 0]
      ordered == \A i, j \in 1..Len(inherited) : (i < j /\ resentIdx[i] # 0 /\ resentIdx[j] # 0) => resentIdx[i] < resentIdx[j]
      freshQuiet == \A i \in 1..Len(fresh) : fresh[i].tx => (pubW(fresh[i]) = <<>> /\ (fresh[i].rel \/ relW(fresh[i]) = <<>>))
      persistentResume == resumeLine /\ k.clean = 0
      \* a clean connection after a persistent one: what was carried over fails with MQTTSessionCleared, by the end of the CONNACK line
      cleanResume == resumeLine /\ k.clean = 1
      carriedCleared == \A i \in 1..Len(inherited) : c2.D[inherited[i].d].st = "fail" /\ c2.D[inherited[i].d].exc = "MQTTSessionCleared"
      clearedFires == SelectSeq(fires, LAMBDA e : e.ok = 0 /\ LogExc(e) = "MQTTSessionCleared" /\ isPubD(e))
      freshFailed == \E i \in 1..Len(clearedFires) : c2.D[clearedFires[i].d].g = c2.A[c2.D[clearedFires[i].d].a].g
                                                      /\ c2.A[c2.D[clearedFires[i].d].a].st \in {"connecting", "connected"}
                                                      /\ c2.D[clearedFires[i].d].n # ln.n /\ s.op # "connect"
  IN FirstBad(R2,
       << <<~lossBad, "C12.publish_deferred_fired_at_persistent_loss", <<>> >>,
          <<~persistentResume \/ \A i \in 1..Len(inherited) : resumeOK(inherited[i]), "C12.inflight_not_resumed",
              <<[i \in 1..Len(inherited) |-> <<req(inherited[i]).mid, inherited[i].tx, inherited[i].rel, Len(pubW(inherited[i])), Len(relW(inherited[i]))>>]>> >>,
          <<~persistentResume \/ ordered, "C12.resumed_out_of_order", <<>> >>,
          <<~resumeLine \/ freshQuiet, "C12.request_of_new_connection_resent", <<>> >>,
          <<~cleanResume \/ carriedCleared, "C12.carried_over_not_cleared", <<>> >>,
          <<~freshFailed, "C12.request_of_new_connection_failed_by_resumption", <<>> >> >>,
       (IF resumeLine THEN 1 + Len(inherited) ELSE 0) + (IF s.op = "lost" /\ k.clean = 0 /\ k.cd # 0 THEN 1 ELSE 0))
C12_End(c, g) == OKr(g)


-----------------------------------------------------------------------------
(* C15  Keepalive: PINGREQ every k seconds, abort when unanswered, silent when k=0 *)
\* ghost per address: on (keepalive period running), last (time of the last PINGREQ, or of the CONNACK), open = times of PINGREQs
\* not yet answered, aborted
C15_0 == [a \in Addrs |-> [on |-> FALSE, last |-> 0, open |-> <<>>, aborted |-> FALSE]]
C15_Step(c, c2, g, ln) ==
  LET s == ln.stim  ws == Writes(c2, ln)
      pings(a) == SelectSeq(ws, LAMBDA w : w.p.t = "PINGREQ" /\ w.a = a)
      aborts(a) == \E i \in 1..Len(ln.fx) : ln.fx[i].k = "close" /\ ln.fx[i].how = "abort" /\ ln.fx[i].c[1] = a /\ ln.fx[i].c[2] = c.A[a].g
      step(a) ==
        LET x == g[a]  k == c.A[a]  k2 == c2.A[a]  per == 1024 * k.ka
            inb == IF s.op = "recv" /\ s.a = a THEN Inbound(c, ln).acc ELSE <<>>
            gotResp == \E i \in 1..Len(inb) : inb[i].p.t = "PINGRESP"
            started == s.op = "recv" /\ s.a = a /\ k.st = "connecting" /\ k2.st = "connected"
            ended == (s.op = "lost" /\ s.a = a) \/ (s.op = "build" /\ s.a = a)
            \* a PINGRESP answers the PINGREQs written strictly before this instant ... received in (tp, tp + k)
            open1 == IF gotResp THEN SelectSeq(x.open, LAMBDA tp : ~(ln.t > tp /\ ln.t <= tp + per) /\ ~(ln.t = tp)) ELSE x.open
            open2 == open1 \o [i \in 1..Len(pings(a)) |-> ln.t]
            x2 == [on |-> IF started THEN k2.ka > 0 ELSE IF ended THEN FALSE ELSE x.on,
                   last |-> IF pings(a) # <<>> \/ started THEN ln.t ELSE x.last,
                   open |-> IF started THEN [i \in 1..Len(pings(a)) |-> ln.t] ELSE IF ended THEN <<>> ELSE open2,
                   aborted |-> IF started \/ ended THEN FALSE ELSE x.aborted \/ aborts(a)]
            live == x2.on /\ k2.st = "connected" /\ k2.tp = "open"
            overdueOpen == \E i \in 1..Len(x2.open) : ln.t > x2.open[i] + 1024 * k2.ka
            \* an abort decided by a timer that is not the CONNACK timeout: only if some PINGREQ has been unanswered for k seconds
            kaAbort == s.op = "fire" /\ aborts(a) /\ x.on /\ ~\E i \in 1..Len(ln.fx) : ln.fx[i].k = "fire"
            unanswered == \E i \in 1..Len(x.open) : ln.t >= x.open[i] + per
            onlyResp == inb # <<>> /\ \A i \in 1..Len(inb) : inb[i].p.t = "PINGRESP"
        IN [x |-> x2,
            checks |->
             << <<~live \/ ln.t - x2.last <= 1024 * k2.ka, "C15.pingreq_overdue", <<a, ln.t - x2.last, k2.ka>> >>,
                <<~live \/ ~overdueOpen, "C15.not_aborted_after_unanswered_ping", <<a, x2.open, ln.t>> >>,
                <<~kaAbort \/ unanswered, "C15.aborted_although_answered", <<a, x.open, ln.t>> >>,
                <<~((k.st = "connected" /\ k.ka = 0 /\ k.cd # 0) \/ (k2.st = "connected" /\ k2.ka = 0)) \/ pings(a) = <<>>, "C15.pingreq_with_keepalive_off", <<a>> >>,
                <<~(k.tp = "lost") \/ pings(a) = <<>>, "C15.pingreq_after_loss", <<a>> >>,
                <<~onlyResp \/ (~Raised(ln) /\ ~HasFx(ln, "close") /\ ~HasFx(ln, "write")), "C15.pingresp_had_effect", <<a>> >> >>,
            hit |-> (IF live THEN 1 ELSE 0) + Len(pings(a)) + (IF kaAbort THEN 1 ELSE 0)]
      ra == step("A")  rb == step("B")
  IN FirstBad([a \in Addrs |-> IF a = "A" THEN ra.x ELSE rb.x], ra.checks \o rb.checks, ra.hit + rb.hit)
C15_End(c, g) == OKr(g)

-----------------------------------------------------------------------------
(* C16  Malformed or unexpected input is contained: no crash, no unjustified effect *)
\* ghost: seen = argument records of every well-formed PUBLISH received so far, per address
C16_0 == [a \in Addrs |-> {}]
C16_Step(c, c2, g, ln) ==
  LET s == ln.stim  fires == Fx(ln, "fire")
      isRecv == s.op = "recv"
      a == IF isRecv THEN s.a ELSE "A"
      inb == IF isRecv THEN Inbound(c, ln).acc ELSE <<>>
      wf == SelectSeq(inb, LAMBDA x : x.p.t # "malformed")
      seen2 == IF isRecv THEN g[a] \cup {PArgs(wf[i].p) : i \in {j \in 1..Len(wf) : wf[j].p.t = "PUBLISH"}} ELSE g[a]
      cbs == SelectSeq(Fx(ln, "cb"), LAMBDA e : e.name = "onPublish")
      oks == SelectSeq(fires, LAMBDA e : e.ok = 1 /\ e.d <= Len(c.D))
      okJust(e) == LET r == c.D[e.d] IN
                   \E i \in 1..Len(wf) :
                      CASE r.op = "connect"     -> wf[i].p.t = "CONNACK" /\ wf[i].p.code = 0
                        [] r.op = "publish"     -> wf[i].p.t \in {"PUBACK", "PUBCOMP"} /\ wf[i].p.id = r.mid
                        [] r.op = "subscribe"   -> wf[i].p.t = "SUBACK" /\ wf[i].p.id = r.mid
                        [] r.op = "unsubscribe" -> wf[i].p.t = "UNSUBACK" /\ wf[i].p.id = r.mid
                        [] OTHER -> FALSE
      closes == Fx(ln, "close")
      k == c.A[a]
      leftHanging == {h \in 1..Len(c2.D) : IsReq(c2.D[h]) /\ c2.D[h].a = a /\ c2.D[h].st = "pending"}
  IN FirstBad([g EXCEPT ![a] = seen2],
       \* (also out of the loss handling itself: it is what settles the pending requests after an abort)
       << <<~(s.op \in {"recv", "fire", "lost"}) \/ ~Raised(ln), "C16.exception_escapes", <<s.op, IF Raised(ln) THEN Fx(ln, "raise")[1].exc ELSE "">> >>,
          <<~isRecv \/ \A i \in 1..Len(closes) : closes[i].how = "abort", "C16.reaction_other_than_abort", <<>> >>,
          <<~isRecv \/ \A i \in 1..Len(cbs) : CbArgs(cbs[i]) \in seen2, "C16.unjustified_delivery", <<IF cbs # <<>> THEN cbs[1].topic ELSE <<>> >> >>,
          <<~isRecv \/ \A i \in 1..Len(oks) : okJust(oks[i]), "C16.unjustified_success", <<IF oks # <<>> THEN c.D[oks[1].d].op ELSE "">> >>,
          <<~(s.op = "lost" /\ ~Mid(ln) /\ k.clean = 1 /\ k.cd # 0 /\ k.tp = "aborted") \/ leftHanging = {}, "C16.request_left_hanging_after_abort", <<leftHanging>> >> >>,
       IF isRecv THEN Len(inb) - Len(wf) + (IF \E i \in 1..Len(wf) : ~Handles(wf[i].p.t, wf[i].st, ln) THEN 1 ELSE 0) ELSE 0)
C16_End(c, g) == OKr(g)

-----------------------------------------------------------------------------
(* C20  Invalid arguments rejected atomically with ValueError/TypeError; valid accepted *)
\* ghost: the projected state after the previous line (timers, protocol.state, pending Deferreds)
C20_0 == [timers |-> <<>>, state |-> <<>>, pending |-> <<>>, has |-> FALSE, twin |-> FALSE, shift |-> 0, d0 |-> 0]
\* what of an effect must be the same in a history with and without a refused call (packet identifiers may differ:
\* the identifier counter is not protocol state)
NormFx(fx, shift, d0) ==
  [i \in 1..Len(fx) |->
     LET e == fx[i]  dd(d) == IF d > d0 THEN d - shift ELSE d IN
     CASE e.k = "write"  -> <<"write", e.bytes[1], Len(e.bytes)>>
       [] e.k = "arm"    -> <<"arm", e.delay>>
       [] e.k = "cancel" -> <<"cancel", e.tm>>
       [] e.k = "fire"   -> <<"fire", dd(e.d), e.ok, IF e.ok = 1 THEN e.val.ty ELSE LogExc(e)>>
       [] e.k = "ret"    -> <<"ret", dd(e.d)>>
       [] e.k = "cb"     -> <<"cb", e.name>>
       [] e.k = "close"  -> <<"close", e.how>>
       [] OTHER          -> <<e.k, LogExc(e)>>]
C20_Step(c, c2, g, ln) ==
  LET s == ln.stim
      k == IF "a" \in DOMAIN s THEN c.A[s.a] ELSE NoA
      isSet == s.op = "set" /\ s.what \in {"window", "timeout", "bandwith"}
      isApi == s.op \in ApiOps
      \* in range per the documented ranges
      argOK == CASE isSet -> SetCheck(s.what, s.v, s.v2) = "ok"
                 [] s.op = "connect" -> ConnectCheck(ConnArgs(s)) = "ok"
                 [] s.op = "publish" -> PublishCheck(PubArgs(s))[1] = "ok"
                 [] s.op = "subscribe" -> LET nt == SubTopics(s.arg, s.qos) IN
                                          nt.ok /\ (\A i \in 1..Len(nt.ts) : nt.ts[i][2] \in 0..2 /\ TextOK(nt.ts[i][1]))
                 [] s.op = "unsubscribe" -> LET nt == UnsubTopics(s.arg) IN nt.ok /\ \A i \in 1..Len(nt.ts) : TextOK(nt.ts[i])
                 [] OTHER -> TRUE
      npend == IF s.op \in {"subscribe", "unsubscribe"} THEN Cardinality({h \in 1..Len(c.D) : c.D[h].op = s.op /\ c.D[h].a = s.a /\ c.D[h].st = "pending"}) ELSE 0
      judged == (isSet /\ k.st # "none") \/ (isApi /\ AllowedOp(s.op, k.st, ln) /\ k.tp = "open" /\ k.st \in {"idle", "connecting", "connected"}
                                             /\ npend < k.window)
      out == IF isApi THEN Outcome(c2, ln) ELSE IF Raised(ln) THEN LogExc(Fx(ln, "raise")[1]) ELSE "none"
      refused == out \in {"ValueError", "TypeError"}
      unchanged == /\ NoEffect(ln) /\ ~HasFx(ln, "cancel") /\ ~HasFx(ln, "cb")
                   /\ (g.has => (ln.post.timers = g.timers /\ ln.post.state = g.state /\ ln.post.pending = g.pending))
                   /\ \A i \in 1..Len(ln.fx) : ln.fx[i].k \in {"raise", "ret", "fire"}
                   /\ \A i \in 1..Len(ln.fx) : ln.fx[i].k = "fire" => ln.fx[i].d > Len(c.D)
      \* twin history: the same stimuli without the extra call at line p0 + 1
      hasRef == "meta" \in DOMAIN ln /\ ln.meta.ref # 0
      isExtra == hasRef /\ ln.n = ln.meta.p0 + 1
      startTwin == isExtra /\ judged /\ ~argOK /\ refused
      after == hasRef /\ g.twin /\ ln.n > ln.meta.p0 + 1
      refln == IF after THEN T[Idx[ln.meta.ref][1] + ln.n - 2] ELSE ln
      sameLater == ~after \/ ( /\ NormFx(ln.fx, g.shift, g.d0) = NormFx(refln.fx, 0, 0)
                               /\ ln.post.state = refln.post.state /\ ln.post.timers = refln.post.timers
                               /\ Len(ln.post.pending) = Len(refln.post.pending) /\ ln.t = refln.t )
      g2 == [timers |-> ln.post.timers, state |-> ln.post.state, pending |-> ln.post.pending, has |-> TRUE,
             twin |-> IF isExtra THEN startTwin ELSE g.twin,
             shift |-> IF isExtra THEN Len(Fx(ln, "ret")) ELSE g.shift, d0 |-> IF isExtra THEN Len(c.D) ELSE g.d0]
  IN FirstBad(g2,
       << <<~(judged /\ ~argOK) \/ refused, "C20.invalid_argument_not_refused", <<s.op, out>> >>,
          <<~(judged /\ ~argOK) \/ unchanged, "C20.refusal_not_atomic", <<s.op>> >>,
          <<~(judged /\ argOK) \/ ~refused, "C20.valid_argument_refused", <<s.op, out>> >>,
          <<sameLater, "C20.refused_call_changed_later_behaviour", <<ln.n, s.op, NormFx(ln.fx, g.shift, g.d0), NormFx(refln.fx, 0, 0)>> >> >>,
       (IF judged /\ ~argOK THEN 1 ELSE 0) + (IF after THEN 1 ELSE 0))
C20_End(c, g) == OKr(g)

\* C14, latent effects: a call refused for the state must not change what the client does later either.  The refstate
\* enumeration pairs every history containing such a call (at line p0 + 1) with its twin without it (meta.ref); after the
\* refused call both must show the same effects, projected state and times (identifiers aside, as for C20).
C14_0 == [twin |-> FALSE, shift |-> 0, d0 |-> 0]
C14x_Step(c, c2, g, ln) ==
  LET r == C14_Step(c, c2, g, ln) IN
  IF r.err # "" THEN r ELSE
  LET s == ln.stim
      hasRef == "meta" \in DOMAIN ln /\ "ref" \in DOMAIN ln.meta /\ ln.meta.ref # 0
      isExtra == hasRef /\ ln.n = ln.meta.p0 + 1
      out == IF s.op \in ApiOps \cup {"disconnect"} THEN Outcome(c2, ln) ELSE "none"
      startTwin == isExtra /\ out = "MQTTStateError"
      after == hasRef /\ g.twin /\ ln.n > ln.meta.p0 + 1
      refln == IF after THEN T[Idx[ln.meta.ref][1] + ln.n - 2] ELSE ln
      sameLater == ~after \/ ( /\ NormFx(ln.fx, g.shift, g.d0) = NormFx(refln.fx, 0, 0)
                               /\ ln.post.state = refln.post.state /\ ln.post.timers = refln.post.timers
                               /\ Len(ln.post.pending) = Len(refln.post.pending) /\ ln.t = refln.t )
      g2 == [twin |-> IF isExtra THEN startTwin ELSE g.twin,
             shift |-> IF isExtra THEN Len(Fx(ln, "ret")) ELSE g.shift, d0 |-> IF isExtra THEN Len(c.D) ELSE g.d0]
  IN FirstBad(g2, << <<sameLater, "C14.refused_call_changed_later_behaviour",
                       <<ln.n, s.op, NormFx(ln.fx, g.shift, g.d0), NormFx(refln.fx, 0, 0), ln.post.state, refln.post.state>> >> >>,
              r.hit + (IF after THEN 1 ELSE 0))


-----------------------------------------------------------------------------
(* C03  Packet framing is independent of how TCP segments the byte stream *)
\* A chunked trace names (meta.ref) the trace in which the same packets were delivered one per chunk to an identically
\* prepared client (meta.p0 preparation lines).  After every chunk the effects must be exactly those the reference shows
\* for the packets that the chunk completes.  ghost: rest = bytes not yet framed, m = packets completed so far
C03_0 == [rest |-> <<>>, m |-> 0]
RefLine(ref, p0, i) == T[Idx[ref][1] + p0 + i - 1]
RefCount(ref, p0) == Idx[ref][2] - Idx[ref][1] + 1 - p0
C03_Step(c, c2, g, ln) ==
  IF "meta" \notin DOMAIN ln \/ ln.meta.ref = 0 \/ ln.n <= ln.meta.p0 \/ ln.stim.op # "recv" THEN OKr(g)
  ELSE LET ref == ln.meta.ref  p0 == ln.meta.p0
           f == Frame(g.rest \o ln.stim.bytes)
           k == Len(f.pkts)
           tooMany == g.m + k > RefCount(ref, p0)
           expected == IF tooMany THEN <<>> ELSE FlattenSeq([i \in 1..k |-> RefLine(ref, p0, g.m + i).fx])
           same == \A i \in 1..k : RefLine(ref, p0, g.m + i).stim.bytes = f.pkts[i]
       IN FirstBad([rest |-> f.rest, m |-> g.m + k],
            << <<~tooMany, "C03.more_packets_than_sent", <<g.m + k>> >>,
               <<tooMany \/ same, "C03.harness_streams_differ", <<>> >>,
               <<tooMany \/ ln.fx = expected, "C03.effects_differ_from_one_packet_per_chunk", <<ln.n, "packets", g.m + 1, g.m + k, Len(ln.fx), Len(expected)>> >> >>, k)
C03_End(c, g) ==
  LET last == T[Idx[tid][2]] IN
  IF "meta" \notin DOMAIN last \/ last.meta.ref = 0 THEN OKr(g)
  ELSE LET ref == last.meta.ref  p0 == last.meta.p0  rl == T[Idx[ref][2]] IN
       FirstBad(g, << <<g.m = RefCount(ref, p0) /\ g.rest = <<>>, "C03.packet_not_delivered", <<g.m, RefCount(ref, p0)>> >>,
                      <<last.post = rl.post, "C03.final_state_differs", <<>> >> >>, 1)


-----------------------------------------------------------------------------
(* C19  Connections to different broker addresses through one factory do not interfere *)
\* A joint trace (two addresses, one factory) names the two solo traces (meta.solo).  The sub-sequence of the joint trace
\* that belongs to an address must equal the solo trace step by step under an injective renaming, built incrementally, of
\* client-issued packet identifiers, Deferred handles and timer handles.
LineAddr(ln) == IF "a" \in DOMAIN ln.stim THEN ln.stim.a ELSE IF ln.stim.op = "fire" /\ "own" \in DOMAIN ln.stim THEN ln.stim.own ELSE ""
SoloIdx(t) == SelectSeq([k \in 1..(Idx[t][2] - Idx[t][1] + 1) |-> Idx[t][1] + k - 1], LAMBDA i : LineAddr(T[i]) # "")
Strip(r, f) == [x \in DOMAIN r \ {f} |-> r[x]]
ClientId(p) == (p.t = "PUBLISH" /\ p.qos > 0) \/ p.t \in {"PUBREL", "SUBSCRIBE", "UNSUBSCRIBE"}
AckOfClient(p) == p.t \in {"PUBACK", "PUBREC", "PUBCOMP", "SUBACK", "UNSUBACK"}
Item(tag, ids, ds, ts) == [tag |-> tag, ids |-> ids, ds |-> ds, ts |-> ts]
\* the comparable content of a line
Items(ln) ==
  LET s == ln.stim
      dec(b) == LET d == DecodeLenient(b, 4) IN IF IsBad(d) \/ (d.t = "PUBLISH" /\ d.qos = 3) THEN [t |-> "malformed"] ELSE d
      stimItem ==
        CASE s.op = "recv" ->
               LET ps == Frame(s.bytes).pkts  ds == [i \in 1..Len(ps) |-> dec(ps[i])] IN
               Item(<<"recv", [i \in 1..Len(ds) |-> IF AckOfClient(ds[i]) THEN [ds[i] EXCEPT !.id = 0] ELSE ds[i]]>>,
                    [i \in 1..Len(SelectSeq(ds, AckOfClient)) |-> SelectSeq(ds, AckOfClient)[i].id], <<>>, <<>>)
          [] s.op = "fire" -> Item(<<"fire">>, <<>>, <<>>, <<s.tm>>)
          [] s.op = "build" -> Item(<<"build", s.g>>, <<>>, <<>>, <<>>)
          [] OTHER -> Item(<<s.op, Strip(s, "a")>>, <<>>, <<>>, <<>>)
      fxItem(e) ==
        CASE e.k = "write" -> LET p == dec(e.bytes) IN
                              IF p.t # "malformed" /\ ClientId(p) THEN Item(<<"write", e.c[2], [p EXCEPT !.id = 0]>>, <<p.id>>, <<>>, <<>>)
                              ELSE Item(<<"write", e.c[2], p>>, <<>>, <<>>, <<>>)
          [] e.k = "arm"    -> Item(<<"arm", e.delay>>, <<>>, <<>>, <<e.tm>>)
          [] e.k = "cancel" -> Item(<<"cancel">>, <<>>, <<>>, <<e.tm>>)
          [] e.k = "fire"   -> IF e.ok = 1 /\ e.val.ty = "int" THEN Item(<<"fire", 1, "int">>, <<e.val.v>>, <<e.d>>, <<>>)
                               ELSE Item(<<"fire", e.ok, IF e.ok = 1 THEN e.val ELSE LogExc(e)>>, <<>>, <<e.d>>, <<>>)
          [] e.k = "ret"    -> IF e.mid > 0 THEN Item(<<"ret", 1>>, <<e.mid>>, <<e.d>>, <<>>) ELSE Item(<<"ret", 0>>, <<>>, <<e.d>>, <<>>)
          [] e.k = "cb"     -> Item(<<"cb", Strip(e, "a")>>, <<>>, <<>>, <<>>)
          [] e.k = "close"  -> Item(<<"close", e.how, e.c[2]>>, <<>>, <<>>, <<>>)
          [] OTHER          -> Item(<<e.k, LogExc(e)>>, <<>>, <<>>, <<>>)
  IN <<stimItem>> \o [i \in 1..Len(ln.fx) |-> fxItem(ln.fx[i])]
\* injective renaming as a sequence of <<joint, solo>> pairs
RenOne(r, j, s) ==
  LET hj == SelectSeq(r, LAMBDA p : p[1] = j)  hs == SelectSeq(r, LAMBDA p : p[2] = s) IN
  IF hj # <<>> THEN [ok |-> hj[1][2] = s, r |-> r]
  ELSE IF hs # <<>> THEN [ok |-> FALSE, r |-> r]
  ELSE [ok |-> TRUE, r |-> Append(r, <<j, s>>)]
RECURSIVE RenSeq(_, _, _, _)
RenSeq(r, js, ss, i) == IF Len(js) # Len(ss) THEN [ok |-> FALSE, r |-> r]
                        ELSE IF i > Len(js) THEN [ok |-> TRUE, r |-> r]
                        ELSE LET x == RenOne(r, js[i], ss[i]) IN IF ~x.ok THEN x ELSE RenSeq(x.r, js, ss, i + 1)
\* items of a joint line against items of the solo line;  m = [ids, ds, ts, ok]
RECURSIVE ItemsMatch(_, _, _, _)
ItemsMatch(m, ji, si, i) ==
  IF ~m.ok \/ i > Len(ji) THEN m
  ELSE IF ji[i].tag # si[i].tag THEN [m EXCEPT !.ok = FALSE]
  ELSE LET a == RenSeq(m.ids, ji[i].ids, si[i].ids, 1)
           b == RenSeq(m.ds, ji[i].ds, si[i].ds, 1)
           c == RenSeq(m.ts, ji[i].ts, si[i].ts, 1)
       IN ItemsMatch([ids |-> a.r, ds |-> b.r, ts |-> c.r, ok |-> a.ok /\ b.ok /\ c.ok], ji, si, i + 1)
C19_0 == [a \in Addrs |-> [pos |-> 0, ids |-> <<>>, ds |-> <<>>, ts |-> <<>>]]
IsJoint(ln) == "meta" \in DOMAIN ln /\ "kind" \in DOMAIN ln.meta /\ ln.meta.kind = "joint"
C19_Step(c, c2, g, ln) ==
  IF ~IsJoint(ln) \/ LineAddr(ln) = "" THEN OKr(g)
  ELSE LET a == LineAddr(ln)
           solo == SoloIdx(ln.meta.solo[a])
           x == g[a]
       IN IF x.pos + 1 > Len(solo) THEN Bad2(g, "C19.more_steps_than_alone", <<a, ln.n>>)
          ELSE LET sl == T[solo[x.pos + 1]]
                   ji == Items(ln)  si == Items(sl)
                   m == IF Len(ji) # Len(si) THEN [ids |-> x.ids, ds |-> x.ds, ts |-> x.ts, ok |-> FALSE]
                        ELSE ItemsMatch([ids |-> x.ids, ds |-> x.ds, ts |-> x.ts, ok |-> TRUE], ji, si, 1)
                   stateSame == ln.post.state[a] = sl.post.state[a]
               IN FirstBad([g EXCEPT ![a] = [pos |-> x.pos + 1, ids |-> m.ids, ds |-> m.ds, ts |-> m.ts]],
                    << <<m.ok, "C19.behaviour_differs_from_alone", <<a, ln.n, sl.n, ln.stim.op, [i \in 1..Len(ji) |-> ji[i].tag[1]], [i \in 1..Len(si) |-> si[i].tag[1]]>> >>,
                       <<stateSame, "C19.state_differs_from_alone", <<a, ln.n>> >> >>, 1)
C19_End(c, g) ==
  LET last == T[Idx[tid][2]] IN
  IF ~IsJoint(last) THEN OKr(g)
  ELSE FirstBad(g, << <<\A a \in Addrs : g[a].pos = Len(SoloIdx(last.meta.solo[a])), "C19.fewer_steps_than_alone",
                        <<[a \in Addrs |-> g[a].pos]>> >> >>, 1)

-----------------------------------------------------------------------------
(* C02 in live sessions: every packet handed to transport.write() is, byte for byte, a packet of the strict reference *)
(* grammar for the protocol level in force (the well-formedness part of C18's stream automaton; the order of the      *)
(* stream is C18's own subject).                                                                                     *)
C02s_Step(c, c2, g, ln) ==
  LET r == C18_Step(c, c2, g, ln) IN
  IF r.err \in {"C18.malformed_packet", "C18.broker_only_type", "C18.incomplete_packet_at_loss"}
  THEN [r EXCEPT !.err = "C02.session_bytes_not_as_prescribed"]
  ELSE [r EXCEPT !.err = "", !.info = <<>>]

-----------------------------------------------------------------------------
(* engine *)
Gh0 == CASE Prop \in {"C18", "C02"} -> C18_0 [] Prop = "C14" -> C14_0 [] Prop = "C04" -> C04_0 [] Prop = "C05" -> C05_0 [] Prop = "C10" -> C10_0 [] Prop = "C13" -> C13_0 [] Prop = "C06" -> C06_0 [] Prop = "C07" -> C07_0 [] Prop = "C11" -> C11_0 [] Prop = "C15" -> C15_0 [] Prop = "C16" -> C16_0 [] Prop = "C20" -> C20_0 [] Prop = "C03" -> C03_0 [] Prop = "C19" -> C19_0 [] OTHER -> <<>>
PropStep(c, c2, g, ln) ==
  CASE Prop = "C18" -> C18_Step(c, c2, g, ln) [] Prop = "C14" -> C14x_Step(c, c2, g, ln)
    [] Prop = "C04" -> C04_Step(c, c2, g, ln) [] Prop = "C05" -> C05_Step(c, c2, g, ln)
    [] Prop = "C06" -> C06_Step(c, c2, g, ln) [] Prop = "C07" -> C07_Step(c, c2, g, ln)
    [] Prop = "C11" -> C11_Step(c, c2, g, ln) [] Prop = "C12" -> C12_Step(c, c2, g, ln)
    [] Prop = "C15" -> C15_Step(c, c2, g, ln) [] Prop = "C16" -> C16_Step(c, c2, g, ln) [] Prop = "C20" -> C20_Step(c, c2, g, ln)
    [] Prop = "C03" -> C03_Step(c, c2, g, ln) [] Prop = "C19" -> C19_Step(c, c2, g, ln)
    [] Prop = "C13" -> C13_Step(c, c2, g, ln) [] Prop = "C08" -> C08_Step(c, c2, g, ln)
    [] Prop = "C10" -> C10_Step(c, c2, g, ln) [] Prop = "C09" -> C09_Step(c, c2, g, ln) [] Prop = "C17" -> C17_Step(c, c2, g, ln)
    [] Prop = "C02" -> C02s_Step(c, c2, g, ln)
    [] OTHER -> OKr(g)
PropEnd(c, g) ==
  CASE Prop = "C18" -> C18_End(c, g) [] Prop = "C14" -> C14_End(c, g) [] Prop = "C04" -> C04_End(c, g) [] Prop = "C05" -> C05_End(c, g)
    [] Prop = "C03" -> C03_End(c, g) [] Prop = "C19" -> C19_End(c, g)
    [] OTHER -> OKr(g)

MInit == /\ tid \in 1..Len(Idx) /\ l = Idx[tid][1] /\ verdict = "run" /\ core = Core0 /\ gh = [g |-> Gh0, hits |-> 0]
MNext ==
  /\ verdict = "run"
  /\ IF Reactive(tid) /\ Prop \notin ReactProps THEN
       \* re-entrant histories are judged only by the automata whose clauses are written for interrupted stimuli
       /\ verdict' = "accept" /\ PrintT(<<"ACCEPT", tid, 0, 0>>) /\ UNCHANGED <<tid, l, core, gh>>
     ELSE IF HasLine THEN
       LET ln == Line IN
       IF ~HarnessOK(core, ln)
       THEN /\ verdict' = "reject" /\ PrintT(<<"REJECT", tid, ln.n, "HARNESS.inconsistent_handles", <<>>>>) /\ UNCHANGED <<tid, l, core, gh>>
       ELSE LET c2 == CoreStep(core, ln)  r == PropStep(core, c2, gh.g, ln) IN
            IF r.err = ""
            THEN /\ l' = l + 1 /\ core' = c2 /\ gh' = [g |-> r.gh, hits |-> gh.hits + r.hit] /\ UNCHANGED <<tid, verdict>>
            ELSE /\ verdict' = "reject" /\ PrintT(<<"REJECT", tid, ln.n, r.err, r.info>>) /\ UNCHANGED <<tid, l, core, gh>>
     ELSE LET r == PropEnd(core, gh.g) IN
          IF r.err = ""
          THEN /\ verdict' = "accept" /\ PrintT(<<"ACCEPT", tid, l - Idx[tid][1], gh.hits + r.hit>>) /\ UNCHANGED <<tid, l, core, gh>>
          ELSE /\ verdict' = "reject" /\ PrintT(<<"REJECT", tid, 0, r.err, r.info>>) /\ UNCHANGED <<tid, l, core, gh>>

=============================================================================
