------------------------------ MODULE TraceMon ------------------------------
(***************************************************************************)
(* Property automata over the OBSERVABLE interface (DESIGN 4.4).           *)
(* A recorded execution is a sequence of lines (stimulus, effects, cheap   *)
(* projected state).  The automata read only those: a derived "core"       *)
(* (protocol state, transport phase, configuration, the table of Deferreds *)
(* handed out) and, per property, a ghost record.  OK_Cxx failing on a     *)
(* line is what raises VIOLATION property=Cxx.  The same automata run on   *)
(* behaviours exported from the specification (they must all be accepted)  *)
(* and on executions of the real classes.                                  *)
(*                                                                         *)
(* One TLC run judges one property (constant Prop); output: one line       *)
(*   <<"ACCEPT", tid, lines, hits>>  or  <<"REJECT", tid, n, clause, info>> *)
(* per trace.                                                              *)
(***************************************************************************)
EXTENDS MqttArgs, MqttFraming, Json, IOUtils

CONSTANT Prop

T   == ndJsonDeserialize(IOEnv.TRACE_FILE)
Idx == JsonDeserialize(IOEnv.INDEX_FILE)

VARIABLES tid, l, verdict, core, gh
mvars == <<tid, l, verdict, core, gh>>

Line    == T[l]
HasLine == l <= Idx[tid][2]
Addrs   == {"A", "B"}

SeqSet(s) == {s[i] : i \in 1..Len(s)}
Min2(x, y) == IF x < y THEN x ELSE y
Max2(x, y) == IF x > y THEN x ELSE y
Where(s, P(_)) == SelectSeq([i \in 1..Len(s) |-> i], LAMBDA i : P(s[i]))     \* positions
Count(s, P(_)) == Len(SelectSeq(s, P))
LogExc(e) == IF e.base # "other" THEN e.base ELSE e.exc

-----------------------------------------------------------------------------
(* The derived core *)
NoA == [g |-> 0, st |-> "none", tp |-> "none", clean |-> 1, ver |-> 4, ka |-> 0, window |-> 1, initT |-> 4,
        hPub |-> 0, hDisc |-> 0, hMade |-> 0, rbuf |-> <<>>, cd |-> 0, cat |-> 0]
Core0 == [A |-> [a \in Addrs |-> NoA], D |-> <<>>, t |-> 0]

PubCap(ln) == ln.profile \in {"pub", "both"}
SubCap(ln) == ln.profile \in {"sub", "both"}
Handles(t, st, ln) ==
  CASE t = "CONNACK"  -> st = "connecting"
    [] t = "PINGRESP" -> st = "connected"
    [] t \in {"PUBACK", "PUBREC", "PUBCOMP"} -> PubCap(ln) /\ st = "connected"
    [] t \in {"SUBACK", "UNSUBACK", "PUBLISH", "PUBREL"} -> SubCap(ln) /\ st = "connected"
    [] OTHER -> FALSE
AllowedOp(op, st, ln) ==
  CASE op = "connect"    -> st = "idle"
    [] op = "publish"    -> PubCap(ln) /\ st \in {"connecting", "connected"}
    [] op \in {"subscribe", "unsubscribe"} -> SubCap(ln) /\ st = "connected"
    [] op = "disconnect" -> st = "connected"
    [] OTHER -> TRUE

ApiOps == {"connect", "publish", "subscribe", "unsubscribe"}

\* effects of a line by kind
Fx(ln, k) == SelectSeq(ln.fx, LAMBDA e : e.k = k)
HasFx(ln, k) == \E i \in 1..Len(ln.fx) : ln.fx[i].k = k
Raised(ln) == HasFx(ln, "raise")

\* inbound: the packets the chunk completes for address a, with the derived state in which each arrives
\*   [raw, p (lenient decode or malformed), st]
RECURSIVE InbR(_, _, _, _, _)
InbR(pk, i, st, ver, acc) ==
  IF i > Len(pk) THEN [acc |-> acc, st |-> st]
  ELSE LET d == DecodeLenient(pk[i], ver)
           p == IF IsBad(d) THEN [t |-> "malformed", why |-> d.why] ELSE d
           st2 == IF p.t = "CONNACK" /\ st = "connecting" THEN (IF p.code = 0 THEN "connected" ELSE "idle") ELSE st
       IN InbR(pk, i + 1, st2, ver, Append(acc, [raw |-> pk[i], p |-> p, st |-> st]))
Inbound(c, ln) ==
  LET a == ln.stim.a  k == c.A[a]  f == Frame(k.rbuf \o ln.stim.bytes)
  IN IF k.tp \in {"open", "closing"} THEN [rest |-> f.rest] @@ InbR(f.pkts, 1, k.st, k.ver, <<>>)
     ELSE [rest |-> f.rest, acc |-> <<>>, st |-> k.st]          \* A2: nothing is delivered after an abort / loss

\* outbound: every write effect decoded by the strict reference decoder
WPkt(c, e) == LET a == e.c[1] IN
              LET d == DecodeStrict(e.bytes, c.A[a].ver) IN IF IsBad(d) THEN [t |-> "malformed", why |-> d.why] ELSE d
Writes(c, ln) == LET w == Fx(ln, "write") IN [i \in 1..Len(w) |-> [a |-> w[i].c[1], g |-> w[i].c[2], p |-> WPkt(c, w[i]), bytes |-> w[i].bytes]]

\* the Deferred table: one entry per "ret" effect, in handle order
NewD(c, ln) ==
  LET rets == Fx(ln, "ret") IN
  [i \in 1..Len(rets) |-> [d |-> rets[i].d, mid |-> rets[i].mid, op |-> ln.stim.op, a |-> ln.stim.a, g |-> c.A[ln.stim.a].g,
                           st |-> "pending", val |-> [ty |-> "none"], exc |-> "", n |-> ln.n, t |-> ln.t, stim |-> ln.stim, fn |-> 0]]
ApplyFires(D, ln) ==
  LET fs == Fx(ln, "fire") IN
  [d \in 1..Len(D) |->
     LET mine == SelectSeq(fs, LAMBDA e : e.d = d) IN
     IF mine = <<>> THEN D[d]
     ELSE [D[d] EXCEPT !.st = IF mine[1].ok = 1 THEN "ok" ELSE "fail",
                       !.val = IF mine[1].ok = 1 THEN mine[1].val ELSE @,
                       !.exc = IF mine[1].ok = 0 THEN LogExc(mine[1]) ELSE @,
                       !.fn = ln.n]]

IntOr(v, dflt) == IF v.ty = "int" THEN v.v ELSE dflt

CoreStep(c, ln) ==
  LET s == ln.stim
      D1 == ApplyFires(c.D \o NewD(c, ln), ln)
      closes == Fx(ln, "close")
      \* transport phase after the close requests of this line
      tpAfter(a, tp0) == IF \E i \in 1..Len(closes) : closes[i].c[1] = a /\ closes[i].c[2] = c.A[a].g /\ closes[i].how = "abort"
                           THEN (IF tp0 \in {"open", "closing"} THEN "aborted" ELSE tp0)
                         ELSE IF \E i \in 1..Len(closes) : closes[i].c[1] = a /\ closes[i].c[2] = c.A[a].g /\ closes[i].how = "lose"
                           THEN (IF tp0 = "open" THEN "closing" ELSE tp0)
                         ELSE tp0
      A1 == [a \in Addrs |->
              LET k == c.A[a] IN
              IF "a" \notin DOMAIN s \/ s.a # a THEN [k EXCEPT !.tp = tpAfter(a, k.tp)]
              ELSE
              CASE s.op = "build" -> [NoA EXCEPT !.g = s.g, !.st = "idle", !.tp = "open"]
                [] s.op = "set" ->
                     IF Raised(ln) THEN k
                     ELSE CASE s.what = "window"  -> [k EXCEPT !.window = IntOr(s.v, @)]
                            [] s.what = "timeout" -> [k EXCEPT !.initT = IntOr(s.v, @)]
                            [] s.what = "onPublish" -> [k EXCEPT !.hPub = s.v.v]
                            [] s.what = "onDisconnection" -> [k EXCEPT !.hDisc = s.v.v]
                            [] s.what = "onMqttConnectionMade" -> [k EXCEPT !.hMade = s.v.v]
                            [] OTHER -> k
                [] s.op = "connect" ->
                     \* accepted iff a Deferred was returned and is still pending after the call
                     LET rets == Fx(ln, "ret") IN
                     IF rets # <<>> /\ D1[rets[1].d].st = "pending" /\ k.st = "idle"
                     THEN [k EXCEPT !.st = "connecting", !.clean = s.clean, !.ver = IF s.ver \in {3, 4} THEN s.ver ELSE 4,
                                    !.ka = IntOr(s.ka, 0), !.cd = rets[1].d, !.cat = ln.t, !.tp = tpAfter(a, @)]
                     ELSE [k EXCEPT !.tp = tpAfter(a, @)]
                [] s.op = "disconnect" ->
                     IF k.st = "connected" /\ ~Raised(ln) THEN [k EXCEPT !.st = "closed", !.tp = tpAfter(a, @)]
                     ELSE [k EXCEPT !.tp = tpAfter(a, @)]
                [] s.op = "recv" -> LET inb == Inbound(c, ln) IN [k EXCEPT !.st = inb.st, !.rbuf = inb.rest, !.tp = tpAfter(a, @)]
                [] s.op = "lost" -> [k EXCEPT !.st = "idle", !.tp = "lost"]
                [] OTHER -> [k EXCEPT !.tp = tpAfter(a, @)]]
  IN [A |-> A1, D |-> D1, t |-> ln.t]

\* generic sanity of the recording itself (not a property): handles are dense, no Deferred fires twice
HarnessOK(c, ln) ==
  LET rets == Fx(ln, "ret")  fs == Fx(ln, "fire") IN
  /\ \A i \in 1..Len(rets) : rets[i].d = Len(c.D) + i
  /\ \A i \in 1..Len(fs) : fs[i].d \in 1..(Len(c.D) + Len(rets))

StName == [none |-> "none", idle |-> "IdleState", connecting |-> "ConnectingState", connected |-> "ConnectedState", closed |-> "BaseState"]

OKr(g)      == [gh |-> g, err |-> "", info |-> <<>>, hit |-> 0]
Hit(g, n)   == [gh |-> g, err |-> "", info |-> <<>>, hit |-> n]
Bad2(g, clause, info) == [gh |-> g, err |-> clause, info |-> info, hit |-> 0]
\* first failing clause of a sequence of <<condition, clause, info>>
FirstBad(g, checks, hits) ==
  LET bad == SelectSeq(checks, LAMBDA x : ~x[1]) IN
  IF bad = <<>> THEN Hit(g, hits) ELSE Bad2(g, bad[1][2], bad[1][3])

-----------------------------------------------------------------------------
(* C18  Each connection's output is a well-formed client packet stream led by CONNECT *)
C18_0 == [a \in Addrs |-> [wb |-> <<>>, npk |-> 0, disc |-> 0, ver |-> 4, multi |-> 0]]
\* one write effect at position i of the line
C18_Write(r, c, ln, i) ==
  IF r.err # "" THEN r ELSE
  LET e == ln.fx[i]  a == e.c[1]  k == c.A[a]  x == r.gh[a] IN
  IF e.c[2] # k.g \/ k.tp = "lost" THEN Bad2(r.gh, "C18.write_after_lost", <<a, e.c[2], e.bytes[1]>>)
  ELSE IF x.disc = 1 THEN Bad2(r.gh, "C18.write_after_disconnect", <<a, e.bytes[1]>>)
  ELSE
  LET f == Frame(x.wb \o e.bytes)
      ver0 == IF x.npk = 0 /\ f.pkts # <<>> /\ ~IsBad(DecodeStrict(f.pkts[1], 3)) /\ DecodeStrict(f.pkts[1], 3).t = "CONNECT" THEN 3 ELSE x.ver
      ps == [j \in 1..Len(f.pkts) |-> DecodeStrict(f.pkts[j], IF ver0 = 3 THEN 3 ELSE 4)]
      isConn(j) == ~IsBad(ps[j]) /\ ps[j].t = "CONNECT"
      isDisc(j) == ~IsBad(ps[j]) /\ ps[j].t = "DISCONNECT"
      closeLose == \E m \in 1..Len(ln.fx) : ln.fx[m].k = "close" /\ ln.fx[m].how = "lose" /\ ln.fx[m].c[1] = a /\ ln.fx[m].c[2] = k.g
      secondOK == ln.stim.op = "connect"      \* outside A6: a second accepted connect() on the same transport is not judged
      checks == FlattenSeq([j \in 1..Len(ps) |->
                  << <<~IsBad(ps[j]), "C18.malformed_packet", <<a, f.pkts[j][1], IF IsBad(ps[j]) THEN ps[j].why ELSE "">> >>,
                     <<IsBad(ps[j]) \/ ClientPacket(ps[j]), "C18.broker_only_type", <<a, f.pkts[j][1]>> >>,
                     <<(x.npk + j = 1) => (isConn(j) /\ ln.stim.op = "connect"), "C18.first_not_connect", <<a, f.pkts[j][1], ln.stim.op>> >>,
                     <<(x.npk + j > 1 /\ isConn(j)) => secondOK, "C18.second_connect", <<a, ln.stim.op>> >>,
                     <<isDisc(j) => (ln.stim.op = "disconnect" /\ closeLose), "C18.disconnect_outside_disconnect", <<a, ln.stim.op>> >>,
                     <<(\E m \in 1..(j-1) : isDisc(m)) => FALSE, "C18.write_after_disconnect", <<a, f.pkts[j][1]>> >> >>])
      x2 == [x EXCEPT !.wb = f.rest, !.npk = @ + Len(ps), !.disc = IF \E j \in 1..Len(ps) : isDisc(j) THEN 1 ELSE @, !.ver = ver0]
  IN LET fb == FirstBad([r.gh EXCEPT ![a] = x2], checks, r.hit + Len(ps)) IN fb
RECURSIVE C18_Fold(_, _, _, _)
C18_Fold(r, c, ln, i) == IF i > Len(ln.fx) THEN r
                         ELSE C18_Fold(IF ln.fx[i].k = "write" THEN C18_Write(r, c, ln, i) ELSE r, c, ln, i + 1)
C18_Step(c, c2, g, ln) ==
  LET s == ln.stim
      g1 == IF s.op = "build" THEN [g EXCEPT ![s.a] = C18_0[s.a]] ELSE g
      r  == C18_Fold(OKr(g1), c, ln, 1)
  IN IF r.err # "" THEN r
     ELSE IF s.op = "lost" /\ r.gh[s.a].wb # <<>> THEN Bad2(r.gh, "C18.incomplete_packet_at_loss", <<s.a>>)
     ELSE r
C18_End(c, g) == OKr(g)

-----------------------------------------------------------------------------
(* C14  Operations are honoured only in the states and profiles that allow them *)
NoEffect(ln) == ~HasFx(ln, "write") /\ ~HasFx(ln, "arm") /\ ~HasFx(ln, "close")
\* outcome class of an API stimulus
Outcome(c2, ln) ==
  IF Raised(ln) THEN LogExc(Fx(ln, "raise")[1])
  ELSE LET rets == Fx(ln, "ret") IN
       IF rets = <<>> THEN "none"
       ELSE LET d == c2.D[rets[1].d] IN IF d.st = "fail" THEN d.exc ELSE d.st
C14_Step(c, c2, g, ln) ==
  LET s == ln.stim IN
  IF s.op \in ApiOps \cup {"disconnect"} THEN
    LET k == c.A[s.a]
        judged == k.st \in {"idle", "connecting", "connected"} /\ k.tp = "open"
        allowed == AllowedOp(s.op, k.st, ln)
        out == Outcome(c2, ln)
    IN IF ~judged THEN OKr(g)
       ELSE FirstBad(g, << <<allowed \/ out = "MQTTStateError", "C14.not_refused", <<s.op, k.st, ln.profile, out>> >>,
                          <<allowed \/ NoEffect(ln), "C14.refused_but_effects", <<s.op, k.st, ln.profile>> >>,
                          <<~allowed \/ out # "MQTTStateError", "C14.allowed_but_refused", <<s.op, k.st, ln.profile>> >>,
                          <<StName[c2.A[s.a].st] = ln.post.state[s.a] \/ c2.A[s.a].st = "closed", "C14.state_differs", <<s.op, c2.A[s.a].st, ln.post.state[s.a]>> >> >>, 1)
  ELSE IF s.op = "recv" THEN
    LET inb == Inbound(c, ln).acc
        wf  == SelectSeq(inb, LAMBDA x : x.p.t # "malformed")
        allUnhandled == Len(wf) = Len(inb) /\ inb # <<>> /\ \A i \in 1..Len(inb) : ~Handles(inb[i].p.t, inb[i].st, ln) /\ inb[i].p.t \in BrokerTypes
    IN FirstBad(g, << <<~allUnhandled \/ ln.fx = <<>>, "C14.unexpected_packet_had_effect", <<inb[1].p.t, inb[1].st, ln.profile>> >>,
                      <<c2.A[s.a].st \notin {"idle", "connecting", "connected"} \/ c.A[s.a].tp \notin {"open"} \/ StName[c2.A[s.a].st] = ln.post.state[s.a],
                        "C14.state_differs", <<"recv", c2.A[s.a].st, ln.post.state[s.a]>> >> >>, IF allUnhandled THEN 1 ELSE 0)
  ELSE IF s.op = "lost" THEN
    FirstBad(g, << <<ln.post.state[s.a] = "IdleState", "C14.state_differs", <<"lost", ln.post.state[s.a]>> >> >>, 0)
  ELSE OKr(g)
C14_End(c, g) == OKr(g)

-----------------------------------------------------------------------------
(* C04  connect() handshake outcome and connection-loss notification, exactly once each *)
ConnArgs(s) == [cid |-> s.cid, ka |-> s.ka, clean |-> s.clean, ver |-> s.ver, wtopic |-> s.wtopic, wmsg |-> s.wmsg,
                wqos |-> s.wqos, wretain |-> s.wretain, uname |-> s.uname, pwd |-> s.pwd]
ConnackTicks(ka) == 1024 * (IF ka = 0 THEN 10 ELSE ka)
\* ghost: exp = set of <<a, g, reason>> notifications owed, done = those delivered
C04_0 == [exp |-> {}, done |-> {}]
C04_Step(c, c2, g, ln) ==
  LET s == ln.stim
      fires == Fx(ln, "fire")
      \* fires of connect Deferreds in this line
      cf == SelectSeq(fires, LAMBDA e : c2.D[e.d].op = "connect" /\ c2.D[e.d].n # ln.n)
      cbs == SelectSeq(Fx(ln, "cb"), LAMBDA e : e.name = "onDisconnection")
      g1 == [g EXCEPT !.exp = IF s.op = "lost" /\ c.A[s.a].hDisc = 1 THEN @ \cup {<<s.a, c.A[s.a].g, s.reason>>} ELSE @,
                      !.done = @ \cup {<<cbs[i].a, cbs[i].g, cbs[i].reason>> : i \in 1..Len(cbs)}]
      inb == IF s.op = "recv" THEN Inbound(c, ln).acc ELSE <<>>
      connacks == SelectSeq(inb, LAMBDA x : x.p.t = "CONNACK" /\ x.st = "connecting")
      \* every fire of a connect Deferred is justified
      justified(e) ==
        LET d == c2.D[e.d]  k == c.A[d.a] IN
        IF e.ok = 1 THEN s.op = "recv" /\ s.a = d.a /\ connacks # <<>> /\ connacks[1].p.code = 0 /\ k.cd = e.d
                         /\ e.val = [ty |-> "bool", v |-> connacks[1].p.session]
        ELSE CASE LogExc(e) = "MQTTStateError"   -> s.op = "recv" /\ s.a = d.a /\ connacks # <<>> /\ connacks[1].p.code # 0 /\ k.cd = e.d
                                                    /\ ln.post.state[d.a] = "IdleState"
               [] LogExc(e) = "MQTTTimeoutError" -> /\ s.op = "fire"
                                                    /\ ln.t = d.t + ConnackTicks(IntOr(d.stim.ka, 0))
                                                    /\ \E i \in 1..Len(ln.fx) : ln.fx[i].k = "close" /\ ln.fx[i].how = "abort" /\ ln.fx[i].c[1] = d.a /\ ln.fx[i].c[2] = d.g
               [] OTHER -> FALSE
      connectOK ==
        IF s.op = "connect" /\ c.A[s.a].st = "idle" /\ c.A[s.a].tp = "open" /\ ConnectCheck(ConnArgs(s)) = "ok"
        THEN LET w == Writes(c2, ln)  arms == Fx(ln, "arm")  rets == Fx(ln, "ret") IN
             /\ Len(w) = 1 /\ w[1].a = s.a /\ w[1].g = c.A[s.a].g /\ w[1].p = PktConnect(ConnArgs(s))
             /\ Len(arms) = 1 /\ arms[1].delay = ConnackTicks(s.ka.v)
             /\ Len(rets) = 1 /\ c2.D[rets[1].d].st = "pending"
        ELSE TRUE
      connackOK ==
        connacks = <<>> \/
        LET k == c.A[s.a]  code == connacks[1].p.code IN
        k.cd = 0 \/ c.D[k.cd].st # "pending" \/
        \E i \in 1..Len(fires) : fires[i].d = k.cd /\ (IF code = 0 THEN fires[i].ok = 1 ELSE fires[i].ok = 0 /\ LogExc(fires[i]) = "MQTTStateError")
  IN FirstBad(g1,
       << <<connectOK, "C04.connect_effects", <<s.op>> >>,
          <<\A i \in 1..Len(cf) : c.D[cf[i].d].st = "pending", "C04.connect_deferred_fired_twice", <<>> >>,
          <<\A i \in 1..Len(cf) : justified(cf[i]), "C04.connect_outcome_unjustified", <<s.op, IF cf # <<>> THEN cf[1] ELSE <<>> >> >>,
          <<connackOK, "C04.connack_without_outcome", <<>> >>,
          <<s.op # "lost" \/ ln.post.state[s.a] = "IdleState", "C04.not_idle_after_loss", <<>> >>,
          <<\A i \in 1..Len(cbs) : s.op = "fire" /\ <<cbs[i].a, cbs[i].g, cbs[i].reason>> \in g.exp \ g.done, "C04.unexpected_notification", <<s.op>> >>,
          <<\A i, j \in 1..Len(cbs) : i # j => <<cbs[i].a, cbs[i].g>> # <<cbs[j].a, cbs[j].g>>, "C04.notified_twice", <<>> >> >>,
       Len(cf) + Len(cbs) + (IF s.op = "connect" THEN 1 ELSE 0))
\* at the end of a drained history every connect Deferred has fired and every owed notification was delivered
C04_End(c, g) ==
  LET ln == T[Idx[tid][2]]  drained == ln.post.timers = <<>> IN
  IF ~drained THEN OKr(g)
  ELSE FirstBad(g, << <<\A d \in 1..Len(c.D) : c.D[d].op = "connect" => c.D[d].st # "pending", "C04.connect_never_fired", <<>> >>,
                      <<g.exp \subseteq g.done, "C04.notification_missing", <<g.exp \ g.done>> >> >>, 1)

-----------------------------------------------------------------------------
(* C05  publish() Deferred fires exactly once, only on the ack its QoS level requires *)
\* ghost: per publish Deferred handle: [qos, mid, sent (a PUBLISH with that id/content was written), rec (PUBREC seen after it), unj]
C05_0 == [P |-> <<>>]        \* function handle -> record, as a sequence of <<d, rec>> pairs is awkward: use a function over a set
C05_Get(g, d) == g.P[CHOOSE i \in 1..Len(g.P) : g.P[i].d = d]
C05_Has(g, d) == \E i \in 1..Len(g.P) : g.P[i].d = d
C05_Upd(g, d, f(_)) == [g EXCEPT !.P = [i \in 1..Len(g.P) |-> IF g.P[i].d = d THEN f(g.P[i]) ELSE g.P[i]]]
C05_Step(c, c2, g, ln) ==
  LET s == ln.stim
      rets == Fx(ln, "ret")
      fires == Fx(ln, "fire")
      w == Writes(c2, ln)
      \* new publish requests (valid qos argument)
      isPub == s.op = "publish" /\ rets # <<>> /\ s.qos.ty = "int"
      newP == IF isPub /\ c2.D[rets[1].d].st = "pending"
              THEN <<[d |-> rets[1].d, a |-> s.a, qos |-> s.qos.v, mid |-> rets[1].mid, sent |-> FALSE, rec |-> FALSE, unj |-> FALSE,
                      topic |-> s.topic, payload |-> s.payload]>> ELSE <<>>
      g1 == [g EXCEPT !.P = @ \o newP]
      \* writes: a PUBLISH carrying the identifier and content of a pending request marks it sent
      sentNow(x) == \E i \in 1..Len(w) : w[i].p.t = "PUBLISH" /\ w[i].a = x.a /\ w[i].p.qos = x.qos /\ w[i].p.id = x.mid
                                         /\ x.topic.ty = "str" /\ w[i].p.topic = x.topic.v /\ w[i].p.payload = PayloadBytes(x.payload)
      inb == IF s.op = "recv" THEN Inbound(c, ln).acc ELSE <<>>
      \* acknowledgements that arrive in this chunk, in whatever state (this is the justification direction: the statement
      \* says "only when the ack arrives"; whether the client had to honour it is C14's subject)
      acks(t) == {inb[i].p.id : i \in {j \in 1..Len(inb) : inb[j].p.t = t}}
      g2 == [g1 EXCEPT !.P = [i \in 1..Len(g1.P) |->
                LET x == g1.P[i] IN
                IF x.d <= Len(c.D) /\ c.D[x.d].st # "pending" THEN x
                ELSE [x EXCEPT !.sent = @ \/ sentNow(x),
                               !.rec  = @ \/ (s.op = "recv" /\ s.a = x.a /\ x.sent /\ x.mid \in acks("PUBREC")),
                               !.unj  = @ \/ (s.op = "recv" /\ s.a = x.a /\ ((x.qos = 2 /\ x.mid \in acks("PUBACK")) \/ (x.qos = 1 /\ x.mid \in acks("PUBREC") \cup acks("PUBCOMP"))))]]]
      \* successes of publish Deferreds created on earlier lines
      oks == SelectSeq(fires, LAMBDA e : e.ok = 1 /\ C05_Has(g, e.d))
      okJust(e) ==
        LET x == C05_Get(g2, e.d)  x0 == C05_Get(g, e.d) IN
        x.unj \/
        ( /\ s.op = "recv" /\ s.a = x.a /\ x0.sent
          /\ e.val = [ty |-> "int", v |-> x.mid]
          /\ IF x.qos = 1 THEN x.mid \in acks("PUBACK") ELSE x.mid \in acks("PUBCOMP") /\ x.rec )
      qos0OK == (isPub /\ s.qos.v = 0) =>
                   LET d == c2.D[rets[1].d] IN d.st # "pending" /\ (d.st = "ok" => d.val = [ty |-> "none"] /\ rets[1].mid = -1)
      midOK == newP = <<>> \/ newP[1].qos = 0 \/ newP[1].mid \in 1..65535
  IN FirstBad(g2,
       << <<qos0OK, "C05.qos0_not_fired_at_return", <<>> >>,
          <<midOK, "C05.msgid_missing", <<>> >>,
          <<\A i \in 1..Len(oks) : c.D[oks[i].d].st = "pending", "C05.fired_twice", <<>> >>,
          <<\A i \in 1..Len(oks) : okJust(oks[i]), "C05.success_without_required_ack", <<s.op, IF oks # <<>> THEN oks[1] ELSE <<>> >> >> >>,
       Len(oks) + Len(newP))
C05_End(c, g) == OKr(g)


-----------------------------------------------------------------------------
(* shared helpers over the Deferred table *)
Pending(c, d) == d \in 1..Len(c.D) /\ c.D[d].st = "pending"
IsPubReq(e)   == e.op = "publish" /\ e.stim.qos.ty = "int" /\ e.stim.qos.v \in 1..2
IsReq(e)      == (IsPubReq(e) \/ e.op \in {"subscribe", "unsubscribe"}) /\ e.mid >= 0
InbAcks(inb, t) == {inb[i].p.id : i \in {j \in 1..Len(inb) : inb[j].p.t = t}}
PubArgs(s) == [topic |-> s.topic, payload |-> s.payload, qos |-> s.qos, retain |-> s.retain]

-----------------------------------------------------------------------------
(* C10  Send window bounds in-flight publishes; queue is FIFO and strands no message *)
\* ghost per address: acc = accepted publishes in call order, noack = handles first-transmitted and not yet PUBACK/PUBREC-ed
C10_0 == [a \in Addrs |-> [acc |-> <<>>, noack |-> {}]]
C10_HeadPos(c2, acc) ==
  LET ps == SelectSeq([i \in 1..Len(acc) |-> i], LAMBDA i : ~acc[i].tx /\ ~acc[i].drop /\ (acc[i].qos = 0 \/ Pending(c2, acc[i].d)))
  IN IF ps = <<>> THEN 0 ELSE ps[1]
\* one PUBLISH write w on address a;  r = [x (ghost of a), err, info, hit]
C10_Write(r, c, c2, a, w) ==
  IF r.err # "" THEN r ELSE
  LET x == r.x  p == w.p  h == C10_HeadPos(c2, x.acc)
      mine == SelectSeq([i \in 1..Len(x.acc) |-> i], LAMBDA i : x.acc[i].qos > 0 /\ x.acc[i].mid = p.id /\ Pending(c2, x.acc[i].d))
      first == IF p.qos = 0 THEN TRUE ELSE mine # <<>> /\ ~x.acc[mine[Len(mine)]].tx
  IN IF p.qos > 0 /\ mine = <<>> THEN r                         \* not a request of this automaton's table: C13's subject
     ELSE IF ~first THEN r                                      \* a repeat: C08's subject
     ELSE IF h = 0 THEN [r EXCEPT !.err = "C10.sent_but_never_accepted", !.info = <<a, p.qos, p.id>>]
     ELSE LET e == x.acc[h] IN
          IF ~(e.qos = p.qos /\ e.topic = p.topic /\ e.payload = p.payload /\ e.retain = p.retain /\ (p.qos = 0 \/ e.mid = p.id))
          THEN [r EXCEPT !.err = "C10.not_fifo", !.info = <<a, "expected", e.qos, e.mid, "written", p.qos, p.id>>]
          ELSE IF p.dup # 0 THEN [r EXCEPT !.err = "C10.first_transmission_with_dup", !.info = <<a, p.id>>]
          ELSE LET na == IF p.qos > 0 THEN {d \in x.noack \cup {e.d} : Pending(c2, d)} ELSE x.noack IN
               IF p.qos > 0 /\ Cardinality(na) > c.A[a].window
               THEN [r EXCEPT !.err = "C10.window_exceeded", !.info = <<a, Cardinality(na), c.A[a].window>>]
               ELSE [r EXCEPT !.x = [x EXCEPT !.acc[h].tx = TRUE, !.noack = na], !.hit = @ + 1]
RECURSIVE C10_Fold(_, _, _, _, _, _)
C10_Fold(r, c, c2, a, ws, i) == IF i > Len(ws) THEN r
                                ELSE C10_Fold(IF ws[i].p.t = "PUBLISH" /\ ws[i].a = a THEN C10_Write(r, c, c2, a, ws[i]) ELSE r, c, c2, a, ws, i + 1)
C10_Step(c, c2, g, ln) ==
  LET s == ln.stim IN
  IF "a" \notin DOMAIN s THEN
    \* a timer: only the writes matter (all addresses)
    LET ws == Writes(c2, ln)
        rs == [a \in Addrs |-> C10_Fold([x |-> g[a], err |-> "", info |-> <<>>, hit |-> 0], c, c2, a, ws, 1)]
        bad == {a \in Addrs : rs[a].err # ""}
    IN IF bad # {} THEN LET a == CHOOSE a \in bad : TRUE IN Bad2(g, rs[a].err, rs[a].info)
       ELSE Hit([a \in Addrs |-> rs[a].x], 0)
  ELSE
  LET a == s.a  k == c.A[a]  rets == Fx(ln, "ret")
      isPub == s.op = "publish" /\ rets # <<>>
      valid == isPub /\ PublishCheck(PubArgs(s))[1] = "ok" /\ AllowedOp("publish", k.st, ln) /\ k.tp = "open" /\ k.st \in {"connecting", "connected"}
      d == IF isPub THEN c2.D[rets[1].d] ELSE [st |-> "none"]
      accepted == isPub /\ PublishCheck(PubArgs(s))[1] = "ok" /\ d.st \in {"pending", "ok"}
      new == IF accepted THEN <<[d |-> rets[1].d, qos |-> s.qos.v, mid |-> rets[1].mid, topic |-> s.topic.v, payload |-> PayloadBytes(s.payload),
                                 retain |-> s.retain, tx |-> FALSE, drop |-> FALSE]>> ELSE <<>>
      inb == IF s.op = "recv" THEN Inbound(c, ln).acc ELSE <<>>
      acked == InbAcks(inb, "PUBACK") \cup InbAcks(inb, "PUBREC")
      x0 == g[a]
      x1 == [x0 EXCEPT !.acc = @ \o new,
                       !.noack = {h \in @ : ~(c.D[h].mid \in acked)}]
      r == C10_Fold([x |-> x1, err |-> "", info |-> <<>>, hit |-> 0], c, c2, a, Writes(c2, ln), 1)
      \* a clean session discards what was held back: at the loss of a clean connection, at an accepted clean connect()
      discard == (s.op = "lost" /\ k.clean = 1) \/ (s.op = "connect" /\ c2.A[a].st = "connecting" /\ k.st = "idle" /\ s.clean = 1)
      x2 == IF discard THEN [r.x EXCEPT !.acc = [i \in 1..Len(@) |-> IF @[i].tx THEN @[i] ELSE [@[i] EXCEPT !.drop = TRUE]]] ELSE r.x
      waiting == C10_HeadPos(c2, x2.acc) # 0
      outstanding == \E i \in 1..Len(x2.acc) : x2.acc[i].qos > 0 /\ x2.acc[i].tx /\ Pending(c2, x2.acc[i].d)
      up == c2.A[a].st = "connected" /\ c2.A[a].tp = "open"
  IN IF r.err # "" THEN Bad2(g, r.err, r.info)
     ELSE FirstBad([g EXCEPT ![a] = x2],
            << <<~valid \/ d.st # "fail", "C10.publish_refused", <<a, d.st, IF d.st = "fail" THEN d.exc ELSE "">> >>,
               <<~(up /\ waiting) \/ outstanding, "C10.stranded", <<a, s.op>> >> >>,
            r.hit + (IF up /\ waiting THEN 1 ELSE 0))
C10_End(c, g) == OKr(g)

-----------------------------------------------------------------------------
(* C09  QoS 2 sender order: PUBREL only after PUBREC, no PUBLISH again after PUBREL *)
\* ghost: QoS 2 requests [d, a, mid, phase, rec]
C09_Write(r, c2, w) ==
  IF r.err # "" THEN r ELSE
  LET p == w.p
      isP2 == p.t = "PUBLISH" /\ p.qos = 2
      isRel == p.t = "PUBREL"
      mine == SelectSeq([i \in 1..Len(r.q) |-> i], LAMBDA i : r.q[i].a = w.a /\ r.q[i].mid = p.id /\ Pending(c2, r.q[i].d))
  IN IF ~(isP2 \/ isRel) \/ mine = <<>> THEN r
     ELSE LET i == mine[Len(mine)]  e == r.q[i] IN
          IF isP2 THEN (IF e.phase = "rel" THEN [r EXCEPT !.err = "C09.publish_after_pubrel", !.info = <<w.a, p.id>>]
                        ELSE [r EXCEPT !.q[i].phase = "pub", !.hit = @ + 1])
          ELSE (IF (e.phase = "pub" /\ e.rec) \/ e.phase = "rel" THEN [r EXCEPT !.q[i].phase = "rel", !.hit = @ + 1]
                ELSE [r EXCEPT !.err = "C09.pubrel_without_pubrec", !.info = <<w.a, p.id, e.phase>>])
RECURSIVE C09_Fold(_, _, _, _)
C09_Fold(r, c2, ws, i) == IF i > Len(ws) THEN r ELSE C09_Fold(C09_Write(r, c2, ws[i]), c2, ws, i + 1)
C09_Step(c, c2, g, ln) ==
  LET s == ln.stim  rets == Fx(ln, "ret")
      new == IF s.op = "publish" /\ rets # <<>> /\ s.qos.ty = "int" /\ s.qos.v = 2 /\ c2.D[rets[1].d].st = "pending"
             THEN <<[d |-> rets[1].d, a |-> s.a, mid |-> rets[1].mid, phase |-> "new", rec |-> FALSE]>> ELSE <<>>
      inb == IF s.op = "recv" THEN Inbound(c, ln).acc ELSE <<>>
      recs == InbAcks(inb, "PUBREC")
      q1 == [i \in 1..Len(g) |-> IF s.op = "recv" /\ g[i].a = s.a /\ g[i].mid \in recs /\ g[i].phase = "pub" /\ Pending(c, g[i].d)
                                 THEN [g[i] EXCEPT !.rec = TRUE] ELSE g[i]] \o new
      r == C09_Fold([q |-> q1, err |-> "", info |-> <<>>, hit |-> 0], c2, Writes(c2, ln), 1)
  IN IF r.err # "" THEN Bad2(g, r.err, r.info) ELSE Hit(r.q, r.hit)
C09_End(c, g) == OKr(g)

-----------------------------------------------------------------------------
(* C17  Packet identifiers are 1..65535 and never shared by two unfinished requests *)
C17_Step(c, c2, g, ln) ==
  LET rets == Fx(ln, "ret")  ws == Writes(c2, ln)
      newReq == SelectSeq(rets, LAMBDA e : IsReq(c2.D[e.d]) /\ c2.D[e.d].st = "pending")
      shared(e) == \E d \in 1..Len(c2.D) : d # e.d /\ IsReq(c2.D[d]) /\ c2.D[d].st = "pending" /\ c2.D[d].mid = e.mid
      idw == SelectSeq(ws, LAMBDA w : (w.p.t = "PUBLISH" /\ w.p.qos > 0) \/ w.p.t \in {"PUBREL", "SUBSCRIBE", "UNSUBSCRIBE"})
  IN FirstBad(g,
       << <<\A i \in 1..Len(newReq) : newReq[i].mid \in 1..65535, "C17.msgid_out_of_range", <<IF newReq # <<>> THEN newReq[1].mid ELSE 0>> >>,
          <<\A i \in 1..Len(newReq) : ~shared(newReq[i]), "C17.id_shared_by_unfinished_requests", <<IF newReq # <<>> THEN newReq[1].mid ELSE 0>> >>,
          <<\A i \in 1..Len(idw) : idw[i].p.id \in 1..65535, "C17.wire_id_out_of_range", <<>> >> >>,
       Len(newReq))
C17_End(c, g) == OKr(g)


-----------------------------------------------------------------------------
(* which unfinished request a written packet belongs to (0 = none), and its class *)
WClass(p) == CASE p.t = "PUBLISH" /\ p.qos > 0 -> "pub" [] p.t = "PUBREL" -> "rel" [] p.t = "SUBSCRIBE" -> "sub" [] p.t = "UNSUBSCRIBE" -> "unsub" [] OTHER -> ""
FitsOp(e, cls, p) == CASE cls = "pub" -> IsPubReq(e) /\ e.stim.qos.v = p.qos
                       [] cls = "rel" -> IsPubReq(e)     \* also QoS 1: a broker answering PUBREC to a QoS 1 PUBLISH is outside the quantifiers, not a stray write
                       [] cls = "sub" -> e.op = "subscribe"
                       [] cls = "unsub" -> e.op = "unsubscribe"
                       [] OTHER -> FALSE
ReqOf(c, c2, ln, a, p) ==
  LET cls == WClass(p)
      ds == {d \in 1..Len(c2.D) : c2.D[d].a = a /\ c2.D[d].mid = p.id /\ FitsOp(c2.D[d], cls, p) /\ (Pending(c, d) \/ (c2.D[d].n = ln.n /\ c2.D[d].mid >= 1))}
  IN IF cls = "" \/ ds = {} THEN 0 ELSE CHOOSE d \in ds : \A e \in ds : e <= d
\* the write effects of a line with their position in fx:  [i, a, g, p, bytes, d, cls]
WritesAt(c, c2, ln) ==
  LET pos == Where(ln.fx, LAMBDA e : e.k = "write") IN
  [j \in 1..Len(pos) |->
     LET e == ln.fx[pos[j]]  p == WPkt(c2, e) IN
     [i |-> pos[j], a |-> e.c[1], g |-> e.c[2], p |-> p, bytes |-> e.bytes, cls |-> WClass(p),
      d |-> IF WClass(p) = "" THEN 0 ELSE ReqOf(c, c2, ln, e.c[1], p)]]
\* timers armed in this line: [tm, delay, fn, own = <<d, cls>> of the packet written right after the arm, or <<0, "">>]
ArmsAt(c, c2, ln, ws) ==
  LET pos == Where(ln.fx, LAMBDA e : e.k = "arm") IN
  [j \in 1..Len(pos) |->
     LET e == ln.fx[pos[j]]
         nxt == SelectSeq(ws, LAMBDA w : w.i = pos[j] + 1)
     IN [tm |-> e.tm, delay |-> e.delay, fn |-> e.label.fn, at |-> ln.t + e.delay, cg |-> 0,
         own |-> IF nxt # <<>> /\ nxt[1].d # 0 THEN <<nxt[1].d, nxt[1].cls>> ELSE <<0, "">>]]
CancelledIn(ln) == {e.tm : e \in SeqSet(Fx(ln, "cancel"))}
FiredIn(ln) == IF ln.stim.op = "fire" THEN {ln.stim.tm} ELSE {}
OneAddr(c) == c.A["B"].st = "none"

-----------------------------------------------------------------------------
(* C13  Settled requests and lost connections stay silent: no stray timers or writes *)
\* ghost: pend = pending timers (records of ArmsAt), connTm = handle armed by the accepted connect() per address,
\*        L = per address what remains to be watched after a loss [aw, old]
C13_0 == [pend |-> {}, connTm |-> [a \in Addrs |-> 0], L |-> [a \in Addrs |-> [aw |-> {}, old |-> {}, on |-> FALSE]]]
C13_Step(c, c2, g, ln) ==
  LET s == ln.stim
      ws == WritesAt(c, c2, ln)
      arms == ArmsAt(c, c2, ln, ws)
      gone == CancelledIn(ln) \cup FiredIn(ln)
      \* cg: the connection of address A during which the timer was armed (used only in one-address traces)
      pend1 == {t \in g.pend : t.tm \notin gone} \cup {[arms[i] EXCEPT !.cg = c2.A["A"].g] : i \in 1..Len(arms)}
      pendH == {t.tm : t \in pend1}
      connTm1 == IF s.op = "connect" /\ c2.A[s.a].st = "connecting" /\ c.A[s.a].st = "idle" /\ arms # <<>>
                 THEN [g.connTm EXCEPT ![s.a] = arms[1].tm] ELSE g.connTm
      isNotif(t) == t.fn = "app_onDisconnection"
      \* what to watch after a loss: the notification of this loss and the CONNACK timeout are awaited, everything else must be gone by then
      L1 == [a \in Addrs |->
               IF s.op = "lost" /\ s.a = a
               THEN LET aw == {t.tm : t \in {x \in pend1 : isNotif(x) \/ x.tm = connTm1[a]}} IN
                    [aw |-> aw, old |-> {t.tm : t \in {x \in pend1 : x.cg = c.A[a].g}} \ aw, on |-> TRUE]
               ELSE [aw |-> g.L[a].aw \cap pendH, old |-> g.L[a].old \cap pendH, on |-> g.L[a].on]]
      reqWrites == SelectSeq(ws, LAMBDA w : w.cls # "")
      owners == {t.own : t \in {x \in pend1 : x.own[1] # 0}}
      dupOwner == \E t1, t2 \in pend1 : t1.tm # t2.tm /\ t1.own[1] # 0 /\ t1.own = t2.own
      anyPending == \E d \in 1..Len(c2.D) : c2.D[d].st = "pending"
      quietA == OneAddr(c2) /\ c2.A["A"].st = "connected" /\ c2.A["A"].tp = "open" /\ c2.A["A"].ka = 0 /\ ~anyPending
      stray == {t \in pend1 : ~isNotif(t) /\ ~(t.tm \in {g.connTm[a] : a \in Addrs} /\ t.tm # connTm1["A"])}
      lateWrites == SelectSeq(ws, LAMBDA w : w.g # c.A[w.a].g \/ c.A[w.a].tp = "lost")
      g1 == [pend |-> pend1, connTm |-> connTm1, L |-> L1]
  IN FirstBad(g1,
       << <<\A i \in 1..Len(reqWrites) : reqWrites[i].d # 0, "C13.write_for_settled_request",
              <<IF reqWrites # <<>> THEN <<reqWrites[1].a, reqWrites[1].p.t, reqWrites[1].p.id>> ELSE <<>>, s.op>> >>,
          <<~dupOwner, "C13.two_timers_for_one_packet", <<s.op>> >>,
          <<~quietA \/ stray = {}, "C13.stray_timer_while_idle", <<{t.fn : t \in stray}>> >>,
          <<lateWrites = <<>>, "C13.write_after_lost", <<s.op>> >>,
          <<~OneAddr(c2) \/ \A a \in Addrs : ~(L1[a].on /\ L1[a].aw = {} /\ L1[a].old # {}), "C13.timer_survives_lost_connection",
              <<{t.fn : t \in {x \in pend1 : x.tm \in L1["A"].old}}>> >> >>,
       Len(reqWrites) + Len(arms) + (IF quietA THEN 1 ELSE 0) + (IF s.op = "lost" THEN 1 ELSE 0))
C13_End(c, g) == OKr(g)

-----------------------------------------------------------------------------
(* C08  Unacknowledged packets are resent on every timer expiry, DUP set, same content *)
\* ghost: X = retransmittable packets of unfinished requests: [d, cls, a, g, first, initT, txs, tm, ver]
C08_Get(X, d, cls) == LET ps == SelectSeq([i \in 1..Len(X) |-> i], LAMBDA i : X[i].d = d /\ X[i].cls = cls) IN IF ps = <<>> THEN 0 ELSE ps[1]
SameButDup(b1, b2) == Len(b1) = Len(b2) /\ \A i \in 2..Len(b1) : b1[i] = b2[i]
                      /\ (b1[1] \div 16) = (b2[1] \div 16) /\ (b1[1] % 8) = (b2[1] % 8)
\* one request packet written;  r = [X, err, info, hit]
C08_Write(r, c, c2, ln, w, arms) ==
  IF r.err # "" \/ w.d = 0 THEN r ELSE
  LET i == C08_Get(r.X, w.d, w.cls)
      myArm == SelectSeq(arms, LAMBDA t : t.own = <<w.d, w.cls>>)
      tm == IF myArm = <<>> THEN 0 ELSE myArm[Len(myArm)].tm
      dup == w.p.dup
      k == c.A[w.a]
  IN IF i = 0 THEN
       \* first transmission of this packet
       [r EXCEPT !.X = Append(@, [d |-> w.d, cls |-> w.cls, a |-> w.a, g |-> w.g, first |-> w.bytes, initT |-> k.initT,
                                  txs |-> <<ln.t>>, tm |-> tm, n |-> 1]),
                 !.err = IF w.cls # "pub" /\ dup # 0 THEN "C08.dup_on_first_transmission" ELSE "", !.info = <<w.cls, w.p.id>>]
     ELSE
       LET x == r.X[i]
           byTimer == ln.stim.op = "fire" /\ ln.stim.tm = x.tm /\ w.g = x.g
           byResume == ln.stim.op = "recv" /\ w.g > x.g /\ c.A[w.a].st = "connecting" /\ c2.A[w.a].st = "connected"
           dupWant == IF w.cls = "pub" THEN 1 ELSE IF k.ver = 3 THEN 1 ELSE 0
           gap == ln.t - x.txs[Len(x.txs)]
           prevGap == IF Len(x.txs) >= 2 THEN x.txs[Len(x.txs)] - x.txs[Len(x.txs) - 1] ELSE 0
           x2 == [x EXCEPT !.txs = IF w.g = x.g THEN Append(@, ln.t) ELSE <<ln.t>>, !.g = w.g, !.tm = tm, !.n = @ + 1]
           err == IF ~(byTimer \/ byResume) THEN "C08.repeated_without_expiry"
                  ELSE IF ~SameButDup(x.first, w.bytes) THEN "C08.content_changed"
                  ELSE IF dup # dupWant THEN "C08.dup_wrong"
                  ELSE IF byTimer /\ gap < 1024 * x.initT THEN "C08.repeated_too_early"
                  ELSE IF byTimer /\ w.cls = "pub" /\ gap < prevGap THEN "C08.gap_shrinks"
                  ELSE ""
       IN [r EXCEPT !.X[i] = x2, !.err = err, !.info = <<w.cls, w.p.id, dup, gap, prevGap, ln.stim.op>>, !.hit = @ + 1]
RECURSIVE C08_Fold(_, _, _, _, _, _, _)
C08_Fold(r, c, c2, ln, ws, arms, i) == IF i > Len(ws) THEN r ELSE C08_Fold(C08_Write(r, c, c2, ln, ws[i], arms), c, c2, ln, ws, arms, i + 1)
C08_Step(c, c2, g, ln) ==
  LET s == ln.stim
      ws == WritesAt(c, c2, ln)
      arms == ArmsAt(c, c2, ln, ws)
      \* the expiry of the timer of an unacknowledged packet on a connection that is up obliges a retransmission
      due == IF s.op = "fire" THEN SelectSeq(g, LAMBDA x : x.tm = s.tm /\ Pending(c, x.d)) ELSE <<>>
      obliged == due # <<>> /\ LET x == due[1]  k == c.A[x.a] IN
                    /\ k.g = x.g /\ k.tp = "open" /\ k.st \in {"connecting", "connected"}
                    /\ (x.cls = "pub" => TRUE)
      done == due # <<>> /\ LET x == due[1] IN
                Count(ws, LAMBDA w : w.d = x.d /\ w.cls = x.cls) = 1 /\ Count(arms, LAMBDA t : t.own = <<x.d, x.cls>>) = 1
      r == C08_Fold([X |-> g, err |-> "", info |-> <<>>, hit |-> 0], c, c2, ln, ws, arms, 1)
      \* forget packets whose request is settled (their identifiers may be reused)
      X2 == SelectSeq(r.X, LAMBDA x : Pending(c2, x.d) /\ ~(x.cls = "pub" /\ \E i \in 1..Len(r.X) : r.X[i].d = x.d /\ r.X[i].cls = "rel"))
  IN IF r.err # "" THEN Bad2(g, r.err, r.info)
     ELSE FirstBad(X2,
            << <<~obliged \/ done, "C08.not_retransmitted_on_expiry", <<IF due # <<>> THEN <<due[1].cls, c.D[due[1].d].mid>> ELSE <<>> >> >>,
               <<~(due # <<>> /\ Raised(ln)), "C08.exception_in_retry_timer", <<IF Raised(ln) THEN LogExc(Fx(ln, "raise")[1]) ELSE "">> >> >>,
            r.hit + (IF obliged THEN 1 ELSE 0))
C08_End(c, g) == OKr(g)

-----------------------------------------------------------------------------
(* engine *)
Gh0 == CASE Prop = "C18" -> C18_0 [] Prop = "C14" -> <<>> [] Prop = "C04" -> C04_0 [] Prop = "C05" -> C05_0 [] Prop = "C10" -> C10_0 [] Prop = "C13" -> C13_0 [] OTHER -> <<>>
PropStep(c, c2, g, ln) ==
  CASE Prop = "C18" -> C18_Step(c, c2, g, ln) [] Prop = "C14" -> C14_Step(c, c2, g, ln)
    [] Prop = "C04" -> C04_Step(c, c2, g, ln) [] Prop = "C05" -> C05_Step(c, c2, g, ln)
    [] Prop = "C13" -> C13_Step(c, c2, g, ln) [] Prop = "C08" -> C08_Step(c, c2, g, ln)
    [] Prop = "C10" -> C10_Step(c, c2, g, ln) [] Prop = "C09" -> C09_Step(c, c2, g, ln) [] Prop = "C17" -> C17_Step(c, c2, g, ln)
    [] OTHER -> OKr(g)
PropEnd(c, g) ==
  CASE Prop = "C18" -> C18_End(c, g) [] Prop = "C14" -> C14_End(c, g) [] Prop = "C04" -> C04_End(c, g) [] Prop = "C05" -> C05_End(c, g)
    [] OTHER -> OKr(g)

MInit == /\ tid \in 1..Len(Idx) /\ l = Idx[tid][1] /\ verdict = "run" /\ core = Core0 /\ gh = [g |-> Gh0, hits |-> 0]
MNext ==
  /\ verdict = "run"
  /\ IF HasLine THEN
       LET ln == Line IN
       IF ~HarnessOK(core, ln)
       THEN /\ verdict' = "reject" /\ PrintT(<<"REJECT", tid, ln.n, "HARNESS.inconsistent_handles", <<>>>>) /\ UNCHANGED <<tid, l, core, gh>>
       ELSE LET c2 == CoreStep(core, ln)  r == PropStep(core, c2, gh.g, ln) IN
            IF r.err = ""
            THEN /\ l' = l + 1 /\ core' = c2 /\ gh' = [g |-> r.gh, hits |-> gh.hits + r.hit] /\ UNCHANGED <<tid, verdict>>
            ELSE /\ verdict' = "reject" /\ PrintT(<<"REJECT", tid, ln.n, r.err, r.info>>) /\ UNCHANGED <<tid, l, core, gh>>
     ELSE LET r == PropEnd(core, gh.g) IN
          IF r.err = ""
          THEN /\ verdict' = "accept" /\ PrintT(<<"ACCEPT", tid, l - Idx[tid][1], gh.hits + r.hit>>) /\ UNCHANGED <<tid, l, core, gh>>
          ELSE /\ verdict' = "reject" /\ PrintT(<<"REJECT", tid, 0, r.err, r.info>>) /\ UNCHANGED <<tid, l, core, gh>>

=============================================================================
