CONSTANT Prop = "C14"
INIT MInit
NEXT MNext
CHECK_DEADLOCK FALSE
