CONSTANT Prop = "C05"
INIT MInit
NEXT MNext
CHECK_DEADLOCK FALSE
