CONSTANT Prop = "C07"
INIT MInit
NEXT MNext
CHECK_DEADLOCK FALSE
