CONSTANT Prop = "C13"
INIT MInit
NEXT MNext
CHECK_DEADLOCK FALSE
