CONSTANT Prop = "C04"
INIT MInit
NEXT MNext
CHECK_DEADLOCK FALSE
