CONSTANT Prop = "C18"
INIT MInit
NEXT MNext
CHECK_DEADLOCK FALSE
