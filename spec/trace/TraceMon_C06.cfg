CONSTANT Prop = "C06"
INIT MInit
NEXT MNext
CHECK_DEADLOCK FALSE
