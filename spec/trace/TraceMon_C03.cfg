CONSTANT Prop = "C03"
INIT MInit
NEXT MNext
CHECK_DEADLOCK FALSE
