---------------------------- MODULE MqttFraming ----------------------------
(* Stream reassembly: how a byte stream from the broker is cut into control *)
(* packets (MQTT 3.1.1 section 2.2: one byte of type/flags, a 1..4 byte      *)
(* remaining length, that many bytes).                                       *)
(*   Frame      - declarative reference                                      *)
(*   FrameImpl  - the algorithm of base.MQTTBaseProtocol._accumulatePacket   *)
(*                transcribed step by step, so that TLC can compare the two  *)
EXTENDS MqttCodec

\* the first complete packet of buf: [ok, pkt, rest]; ok = FALSE if buf does not (yet) start with a complete packet
FirstPacket(buf) ==
  IF Len(buf) < 2 THEN [ok |-> FALSE, pkt |-> <<>>, rest |-> buf]
  ELSE LET rl == DecLen(buf, 2) IN
       IF ~rl.ok THEN [ok |-> FALSE, pkt |-> <<>>, rest |-> buf]
       ELSE LET end == rl.next - 1 + rl.val IN
            IF Len(buf) < end THEN [ok |-> FALSE, pkt |-> <<>>, rest |-> buf]
            ELSE [ok |-> TRUE, pkt |-> SubSeq(buf, 1, end), rest |-> SubSeq(buf, end + 1, Len(buf))]

\* all complete packets at the front of buf and the undelivered tail
RECURSIVE FrameR(_, _)
FrameR(buf, acc) == LET f == FirstPacket(buf) IN
                    IF f.ok THEN FrameR(f.rest, Append(acc, f.pkt)) ELSE [pkts |-> acc, rest |-> buf]
Frame(buf) == FrameR(buf, <<>>)

-----------------------------------------------------------------------------
(* _accumulatePacket, transcribed: returns the same record *)
\* "while lenLen < len(buffer): if not buffer[lenLen] & 0x80: break; lenLen += 1"   (0-based index lenLen)
RECURSIVE ScanLen(_, _)
ScanLen(buf, lenLen) == IF lenLen < Len(buf) /\ buf[lenLen + 1] >= 128 THEN ScanLen(buf, lenLen + 1) ELSE lenLen
\* pdu.decodeLength on buffer[1:]: no bound on the number of digits
\* (Python integers do not overflow: beyond the fourth digit the value is modelled as "larger than any buffer"
\*  unless the digit is 0)
RECURSIVE DecodeLengthImpl(_, _, _, _)
DecodeLengthImpl(buf, i, mult, acc) ==
  IF i > Len(buf) THEN acc
  ELSE LET v == IF mult > 2097152 THEN (IF buf[i] % 128 = 0 THEN acc ELSE 1073741824) ELSE acc + (buf[i] % 128) * mult IN
       IF buf[i] < 128 THEN v ELSE DecodeLengthImpl(buf, i + 1, IF mult > 2097152 THEN mult ELSE mult * 128, v)
RECURSIVE FrameImplR(_, _)
FrameImplR(buf, acc) ==
  IF Len(buf) < 2 THEN [pkts |-> acc, rest |-> buf]
  ELSE LET lenLen == ScanLen(buf, 1) IN
       IF lenLen < Len(buf) /\ buf[lenLen + 1] >= 128 THEN [pkts |-> acc, rest |-> buf]     \* unreachable guard of the code
       ELSE LET length == DecodeLengthImpl(buf, 2, 1, 0)  total == length + lenLen + 1 IN
            IF Len(buf) >= total
            THEN FrameImplR(SubSeq(buf, total + 1, Len(buf)), Append(acc, SubSeq(buf, 1, total)))
            ELSE [pkts |-> acc, rest |-> buf]
FrameImpl(buf) == FrameImplR(buf, <<>>)
=============================================================================
