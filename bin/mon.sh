#!/bin/sh
# usage: mon.sh <dir> <prop>  - run TraceMon for a property on the walk traces in work/<dir> (development helper)
D=/verif/work/$1
cd /verif/spec/trace
for p in pub sub both; do
  TRACE_FILE=$D/$p.ndjson INDEX_FILE=$D/$p.idx.json JOPTS="-Xmx6g -Xss32m" timeout 1200 /verif/bin/tlcrun mon-$1-$2-$p -workers 16 -config TraceMon_$2.cfg TraceMon.tla > $D/$p.mon.out 2>&1
  echo "== $p: accept $(grep -c '"ACCEPT"' $D/$p.mon.out) reject $(grep -c '"REJECT"' $D/$p.mon.out)"; grep -A3 '"REJECT"' $D/$p.mon.out | cut -c1-400 | head -${3:-12}; grep -A8 "Error:" $D/$p.mon.out | head -20
done
