#!/bin/sh
# Specification mutants: every named deviation switch (Bugs) must make TLC find the direct formulation of the property it
# breaks violated (sanity of U1: the model-checked formulas are not vacuous).  usage: specmutants.sh  (about 2 min)
cd /verif/spec/mc
run() { # bug scenario profile consts formula
  cat > _mut.cfg <<EOF2
CONSTANTS
  Addr = {"A"}
  Profile = "$3"
  Bugs = {"$1"}
  Scn = "$2"
  $4
SPECIFICATION Spec
CONSTRAINT Bound
VIEW View
CHECK_DEADLOCK FALSE
$5
EOF2
  out=$(JOPTS="-Xmx8g" timeout 900 /verif/bin/tlcrun specmut -workers 16 -config _mut.cfg MC_Client.tla 2>&1)
  if echo "$out" | grep -q "is violated"; then echo "KILLED   $1 by $5 ($2): $(echo "$out" | grep -m1 'is violated')"; else echo "SURVIVED $1 ($2, $5)"; echo "$out" | tail -3; fi
  rm -f _mut.cfg
}
P="MaxD = 4 MaxGen = 1 MaxN = 2 Windows = {1, 2} MaxId = 3"
S="MaxD = 4 MaxGen = 3 MaxN = 2 Windows = {1, 2} MaxId = 3"
run strand_qos0 publisher pub "$P" "INVARIANT Inv_C10_stranded"
run id_reuse publisher pub "MaxD = 5 MaxGen = 1 MaxN = 1 Windows = {1, 2} MaxId = 3" "INVARIANT Inv_C17"
run queue_not_purged session pub "$S" "PROPERTY Act_C11"
run purge_at_connack session pub "$S" "PROPERTY Act_C12_fresh"
run no_refill_on_sync session pub "$S" "PROPERTY Act_C12_resume"
run window_eq subscriber sub "MaxD = 4 MaxGen = 1 MaxN = 1 Windows = {1, 2} MaxId = 3" "PROPERTY Act_C07"
run pubrel_repeat_no_pubcomp subscriber sub "MaxD = 2 MaxGen = 1 MaxN = 1 Windows = {1} MaxId = 3" "PROPERTY Act_C06"
run no_resubscribe subscriber sub "MaxD = 3 MaxGen = 2 MaxN = 2 Windows = {1, 2} MaxId = 3" "INVARIANT Inv_C07_live"
run disconnect_keeps_timers publisher pub "$P" "PROPERTY Act_C18"
run ping_overwrites_alarm keepalive both "MaxD = 2 MaxGen = 2 MaxN = 1 Windows = {1} MaxId = 3" "INVARIANT Inv_C13"
run refused_connect_sets_params session pub "$S" "PROPERTY Act_C14"
run pubrec_repeat_resends publisher pub "$P" "INVARIANT Inv_C13"
