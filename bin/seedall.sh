#!/bin/sh
# re-runs every seeded change against the check of the property it breaks (quick tier); prints one line each
cd /verif
for d in /verif/seeded/*/; do
  n=$(basename $d); prop=$(python3 -c "import json;print(json.load(open('$d/meta.json'))['breaks_property'])")
  T=/tmp/seed-$n; rm -rf $T; mkdir -p $T; cp -r /repo/src $T/src
  if ! (cd $T && patch -p1 -s --dry-run < $d/patch.diff >/dev/null 2>&1); then echo "$n $prop NOAPPLY"; rm -rf $T; continue; fi
  (cd $T && patch -p1 -s < $d/patch.diff)
  SNAP=$T/verif; mkdir -p $SNAP; rsync -a --exclude work --exclude evidence --exclude replays --exclude seeded --exclude benign --exclude .git /verif/ $SNAP/   # the machinery as it is now (immune to later edits)
  cd $SNAP
  out=$(VERIF_SCRATCH=$T/v MQTT_SRC=$T/src ./check $prop --tier quick --seed ${SEED:-1} 2>&1); rc=$?
  cd /verif; rm -rf $T
  echo "$n $prop rc=$rc $(echo "$out" | grep -o '[0-9]* executions judged, [0-9]* accepted\|[0-9]* records judged ([0-9]* ok)' | head -1) | $(echo "$out" | grep -m1 '^trace\|^record\|^session' | cut -c1-100)"
done
