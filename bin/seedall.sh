#!/bin/sh
# re-runs every seeded change against the check of the property it breaks (quick tier); prints one line each
cd /verif
for d in /verif/seeded/*/; do
  n=$(basename $d); prop=$(python3 -c "import json;print(json.load(open('$d/meta.json'))['breaks_property'])")
  if ! git -C /repo apply --check $d/patch.diff 2>/dev/null; then echo "$n $prop NOAPPLY"; continue; fi
  git -C /repo apply $d/patch.diff
  out=$(./check $prop --tier quick 2>&1); rc=$?
  git -C /repo checkout -- .
  echo "$n $prop rc=$rc $(echo "$out" | grep -m1 '^trace\|^record' | cut -c1-120)"
done
