#!/bin/sh
# Supplementary liveness run (DESIGN 4.6; not a registered check): spec/mc/MC_ClientLive.tla under LiveSpec (weak fairness
# on the broker acknowledging what is in flight, none on the user, the timers or the connection).
#   1. Live_C10_queue / Live_C05_window hold on the unchanged specification            -> "HOLDS"
#   2. control: with the deviation switch strand_qos0 the queue property is violated   -> "KILLED"
#   3. control: without the fairness conjunct both properties are violated             -> "KILLED"
# usage: live.sh   (about 2 min, 16 workers); exit 0 iff 1-3 come out as stated
cd /verif/spec/mc
rc=0
run() { # name cfg-edit expectation
  sed "$2" MC_ClientLive.cfg > _live_$1.cfg
  out=$(JOPTS="-Xmx8g" timeout 1200 /verif/bin/tlcrun live-$1 -workers 16 -config _live_$1.cfg MC_ClientLive 2>&1)
  rm -f _live_$1.cfg
  if echo "$out" | grep -q "No error has been found"; then got=HOLDS; elif echo "$out" | grep -q "Temporal propert.* violated"; then got=KILLED; else got=ERROR; fi
  echo "$1: $got (expected $3) $(echo "$out" | grep -m1 'Temporal property' ) $(echo "$out" | grep -m1 'distinct states found, 0 states left')"
  [ "$got" = "$3" ] || { rc=1; echo "$out" | tail -20; }
}
run spec '' HOLDS
run strand_qos0 's/Bugs = {}/Bugs = {"strand_qos0"}/' KILLED
run nofairness 's/SPECIFICATION LiveSpec/SPECIFICATION Spec/' KILLED
exit $rc
