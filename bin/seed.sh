#!/bin/sh
# usage: seed.sh <name> <property> [checks...]  - adopt the change prepared in /tmp/mut/<name> as /verif/seeded/<name>,
# confirm it (suite unchanged, demo fails with / passes without), then run the given checks against the changed sources
# (a scratch copy read through MQTT_SRC; /repo is not touched).
name=$1; prop=$2; shift 2
M=/tmp/mut/$name; S=/verif/seeded/$name
mkdir -p $S
if [ -d $M ]; then
  [ -s $M/patch.diff ] || git -C $M diff -- src > $M/patch.diff
  cp $M/patch.diff $S/patch.diff; cp $M/demo.py $S/demo.py
  sed -i "s|/tmp/mut/$name/src|/repo/src|g" $S/demo.py
  cd $M && git checkout -- src && /venv/bin/python demo.py > /dev/null 2>&1; clean=$?
  git apply $S/patch.diff || { echo "patch does not apply to the scratch worktree"; exit 3; }
  /venv/bin/python demo.py > $S/demo.out 2>&1; mutated=$?
  suite=$(/venv/bin/python -m pytest -q -p no:cacheprovider 2>&1 | tail -1)
  echo "demo: unchanged exit=$clean, changed exit=$mutated; suite: $suite"
fi
T=/tmp/seed-$name; rm -rf $T; mkdir -p $T; cp -r /repo/src $T/src
(cd $T && patch -p1 -s < $S/patch.diff) || { echo "$name NOAPPLY"; rm -rf $T; exit 3; }
cd /verif; res=""
SNAP=$T/verif; mkdir -p $SNAP; rsync -a --exclude work --exclude evidence --exclude replays --exclude seeded --exclude benign --exclude .git /verif/ $SNAP/   # the machinery as it is now (immune to later edits)
cd $SNAP
for c in ${@:-$prop}; do
  out=$(VERIF_SCRATCH=$T/v MQTT_SRC=$T/src ./check $c --tier quick 2>&1); rc=$?
  echo "--- check $c rc=$rc"; echo "$out" | grep -v "^NOTE" | tail -4; [ $rc -eq 2 ] && echo "$out" | tail -30
  res="$res $c:$rc"
  clauses="$clauses$(echo "$out" | grep -o "C[0-9][0-9]\.[a-z_0-9]*" | sort | uniq -c | sort -rn | head -3 | awk '{printf " %s(x%s)", $2, $1}')"
done
rm -rf $T
echo "RESULT $name$res"
echo "$res" > $S/result.txt
echo "clauses:$clauses" >> $S/result.txt
