#!/bin/sh
# usage: seed.sh <name> <property> [checks...]  - adopt the mutant prepared in /tmp/mut/<name> as /verif/seeded/<name>,
# confirm it (suite unchanged, demo fails with / passes without), then run the given checks against it in /repo and undo.
name=$1; prop=$2; shift 2
M=/tmp/mut/$name; S=/verif/seeded/$name
mkdir -p $S
if [ -d $M ]; then
[ -s $M/patch.diff ] || git -C $M diff -- src > $M/patch.diff
cp $M/patch.diff $S/patch.diff; cp $M/demo.py $S/demo.py
sed -i "s|/tmp/mut/$name/src|/repo/src|g" $S/demo.py
# confirm in the scratch worktree
cd $M && git checkout -- src && /venv/bin/python demo.py > /dev/null 2>&1; clean=$?
git apply $S/patch.diff || { echo "patch does not apply to the scratch worktree"; exit 3; }
/venv/bin/python demo.py > $S/demo.out 2>&1; mutated=$?
suite=$(/venv/bin/python -m pytest -q -p no:cacheprovider 2>&1 | tail -1)
echo "demo: unchanged exit=$clean, changed exit=$mutated; suite: $suite"
else echo "(scratch worktree gone: re-running the checks only)"; fi
# run the checks against it in /repo
cd /verif
git -C /repo apply $S/patch.diff || { echo "patch does not apply to /repo"; exit 3; }
res=""
for c in ${@:-$prop}; do
  out=$(./check $c --tier quick 2>&1); rc=$?
  echo "--- check $c rc=$rc"; echo "$out" | grep -v "^NOTE" | tail -4
  res="$res $c:$rc"
done
git -C /repo checkout -- .
echo "RESULT $name$res"
echo "$res" > $S/result.txt
