#!/bin/sh
# usage: gen.sh <dir> <ntraces> <seed>  - random walks only
D=/verif/work/$1
rm -rf $D; PYTHONHASHSEED=0 PYTHONPATH=/verif/harness /venv/bin/python /verif/harness/walk.py $D $2 $3
