#!/bin/sh
# usage: benign.sh <name>  - a behaviour-preserving refactoring prepared in /tmp/mut/<name> (or stored in /verif/benign/<name>):
# every check must still pass on it (no false alarm).  The checks read the refactored sources through MQTT_SRC, /repo is not touched.
name=$1; M=/tmp/mut/$name; S=/verif/benign/$name
mkdir -p $S
[ -d $M ] && git -C $M diff -- src > $S/patch.diff
SRC=$M/src
if [ ! -d $M ]; then   # rebuild a scratch copy from /repo + patch
  rm -rf /tmp/benign-$name; mkdir -p /tmp/benign-$name; cp -r /repo/src /tmp/benign-$name/src; (cd /tmp/benign-$name && patch -p1 -s < $S/patch.diff) || exit 3
  SRC=/tmp/benign-$name/src
fi
T=/tmp/benign-v-$name; SNAP=$T/verif; mkdir -p $SNAP; rsync -a --exclude work --exclude evidence --exclude replays --exclude seeded --exclude benign --exclude .git /verif/ $SNAP/   # the machinery as it is now (immune to later edits)
cd $SNAP; res=""
for c in ${2:-C01 C02 C03 C04 C05 C06 C07 C08 C09 C10 C11 C12 C13 C14 C15 C16 C17 C18 C19 C20}; do
  out=$(VERIF_SCRATCH=/tmp/benign-v-$name MQTT_SRC=$SRC ./check $c --tier quick 2>&1); rc=$?
  echo "$c rc=$rc $(echo "$out" | grep -v '^NOTE' | tail -1 | cut -c1-140)"; [ $rc -ne 0 ] && echo "$out" | grep "^trace\|^record\|^NOTE" | head -4 | cut -c1-250
  res="$res $c:$rc"
done
cd /verif
[ -z "$2" ] && echo "$res" > $S/result.txt
rm -rf /tmp/benign-$name /tmp/benign-v-$name
echo "RESULT $name$res"
