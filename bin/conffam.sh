#!/bin/sh
# usage: conffam.sh <dir> <n> <seed> <family>
D=/verif/work/$1
rm -rf $D; PYTHONHASHSEED=0 PYTHONPATH=/verif/harness /venv/bin/python /verif/harness/walk.py $D $2 $3 $4 || exit 3
cd /verif/spec/trace
for p in pub sub both; do
  [ -s $D/$p.ndjson ] || continue
  TRACE_FILE=$D/$p.ndjson INDEX_FILE=$D/$p.idx.json JOPTS="-Xmx6g -Xss32m" timeout 1200 /verif/bin/tlcrun conf-$1-$p -workers 16 -config TraceConf_$p.cfg TraceConf.tla > $D/$p.out 2>&1
  echo "== $p"; /venv/bin/python /verif/lib/confsum.py $D/$p.out ${5:-3}; grep -A6 "Error:" $D/$p.out | head -12
done
