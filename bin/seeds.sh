#!/bin/sh
# runs all 20 quick checks on the unchanged tree with other seeds than the registered one (false-alarm control of the random
# families); work files, replays and evidence go to a scratch directory.  usage: seeds.sh [seed ...]   (default 2 3)
cd /verif
for sd in ${@:-2 3}; do
  for p in C01 C02 C03 C04 C05 C06 C07 C08 C09 C10 C11 C12 C13 C14 C15 C16 C17 C18 C19 C20; do
    out=$(VERIF_SCRATCH=/tmp/seeds-$sd ./check $p --tier quick --seed $sd 2>&1); rc=$?
    echo "seed=$sd $p rc=$rc $(echo "$out" | grep -v '^NOTE' | tail -1 | cut -c1-150)"
    [ $rc -ne 0 ] && echo "$out" | grep "^trace\|^record\|^session\|MACHINERY" | head -3
  done
  rm -rf /tmp/seeds-$sd
done
