"""C03..C20: U1 model checking of MqttClient, U2 executions of the real classes judged by the TLA+ property automata
(TraceMon) and checked for conformance with the specification (TraceConf), U3 specification behaviours replayed into the code."""
import json, os, time, collections, glob
from common import *

TRACE = os.path.join(SPEC, "trace")
MC = os.path.join(SPEC, "mc")

# scenario -> (profile, quick constants, thorough constants)
SCN = {
    "handshake":  ("both", "MaxD = 4 MaxGen = 2 MaxN = 1 Windows = {1} MaxId = 3", "MaxD = 6 MaxGen = 2 MaxN = 2 Windows = {1} MaxId = 3"),
    "publisher":  ("pub",  "MaxD = 4 MaxGen = 1 MaxN = 2 Windows = {1, 2} MaxId = 3", "MaxD = 5 MaxGen = 1 MaxN = 3 Windows = {1, 2} MaxId = 3"),
    "session":    ("pub",  "MaxD = 4 MaxGen = 3 MaxN = 2 Windows = {1, 2} MaxId = 3", "MaxD = 5 MaxGen = 3 MaxN = 2 Windows = {1, 2} MaxId = 3"),
    "subscriber": ("sub",  "MaxD = 3 MaxGen = 2 MaxN = 2 Windows = {1, 2} MaxId = 3", "MaxD = 4 MaxGen = 2 MaxN = 2 Windows = {1, 2} MaxId = 3"),
    "keepalive":  ("both", "MaxD = 2 MaxGen = 2 MaxN = 1 Windows = {1} MaxId = 3", "MaxD = 4 MaxGen = 3 MaxN = 1 Windows = {1} MaxId = 3"),
    "twoaddr":    ("pub",  "MaxD = 5 MaxGen = 2 MaxN = 1 Windows = {1} MaxId = 3", "MaxD = 6 MaxGen = 2 MaxN = 1 Windows = {1} MaxId = 3"),
}
# property -> (scenarios, formulas checked in U1)
U1 = {
    "C04": (["handshake", "keepalive"], ["PROPERTY Act_C04"]),
    "C05": (["publisher", "session"], ["PROPERTY Act_C05"]),
    "C06": (["subscriber"], ["PROPERTY Act_C06"]),
    "C07": (["subscriber"], ["PROPERTY Act_C07", "INVARIANT Inv_C13", "INVARIANT Inv_C07_live"]),
    "C08": (["publisher", "subscriber"], ["INVARIANT Inv_C13"]),
    "C09": (["publisher", "session"], ["PROPERTY Act_C09"]),
    "C10": (["publisher", "session"], ["INVARIANT Inv_C10_stranded", "PROPERTY Act_C10_window"]),
    "C11": (["session", "subscriber"], ["PROPERTY Act_C11"]),
    "C12": (["session"], ["PROPERTY Act_C12_loss", "PROPERTY Act_C12_resume", "PROPERTY Act_C12_fresh"]),
    "C13": (["publisher", "session", "keepalive"], ["INVARIANT Inv_C13"]),
    "C14": (["handshake"], ["PROPERTY Act_C14", "PROPERTY Act_C14_pkt"]),
    "C15": (["keepalive"], ["INVARIANT Inv_C15", "INVARIANT Inv_C13"]),
    "C16": (["handshake"], ["PROPERTY Act_C14_pkt", "PROPERTY Act_C20"]),
    "C02": ([], []),        # (C02's U1 is the codec model; its session part only uses the drivers and the automaton)
    "C17": (["publisher", "subscriber", "twoaddr"], ["INVARIANT Inv_C17"]),
    "C18": (["handshake", "publisher"], ["PROPERTY Act_C18"]),
    "C19": (["twoaddr"], ["PROPERTY Act_C19", "INVARIANT Inv_C17"]),
    "C20": (["handshake"], ["PROPERTY Act_C20"]),
}
# C12: "... and the original Deferreds then complete on the usual acknowledgements" is the completion clause of the publish automaton
# C13: "once a request has been ... purged nothing more is ever written for it" is the carry-over clause of the clean-session automaton
BORROW = {"C12": [("C05", {"C05.not_fired_on_required_ack"}, "C12.resumed_request_not_completed_by_its_acknowledgement")],
          "C13": [("C11", {"C11.carried_over_to_next_connection"}, "C13.written_for_a_purged_request")]}
WALKS = {"quick": 240, "thorough": 4000}

ASSUME = [
    "A1 one protocol object per transport, one live connection per address; connect() is not called on a protocol whose transport is gone",
    "A2 the transport reports a loss asynchronously; no data is delivered after abortConnection()",
    "A3 ideal reactor: timers run exactly at their deadline, equal deadlines in any order (virtual time, 1 tick = 1/1024 s)",
    "A4 retry jitter pinned to 0 in these runs",
    "A5 application callbacks supplied by the harness never raise",
    "trusted: TLC, the recording harness (harness/world.py, no expected values), Twisted's Deferred/DelayedCall/LoopingCall",
]


def mc_u1(pid, tier):
    if pid == "C03":
        r = run_tlc("mc-framing", MC, "MC_Framing", "MC_Framing_%s.cfg" % tier, timeout=3000, xmx="12g")
        if not r["ok"]:
            if "is violated" in r["out"]:
                return None, r
            tlc_failed(r, "MC_Framing")
        return (r["distinct"], r["generated"], [{"instance": "MC_Framing", "bounds": "byte strings up to length %d over 10 boundary bytes; 4 streams, every composition" % (5 if tier == "quick" else 6),
                                                 "formulas": ["Inv_Delivered", "Inv_ImplIsRef", "Complete"], "distinct_states": r["distinct"], "transitions": r["generated"],
                                                 "depth": r["depth"], "wall_s": round(r["wall"], 1)}]), None
    scns, formulas = U1[pid]
    tot_g = tot_d = 0; runs = []
    for scn in scns:
        prof, q, t = SCN[scn]
        w = workdir("mc-%s-%s" % (pid, scn))
        cfgname = "MC_%s_%s.cfg" % (pid, scn)
        cfg = "CONSTANTS\n  Addr = " + ('{"A", "B"}' if scn == "twoaddr" else '{"A"}') + "\n  Profile = \"%s\"\n  Bugs = {}\n  Scn = \"%s\"\n  %s\nSPECIFICATION Spec\nCONSTRAINT Bound\nVIEW View\nCHECK_DEADLOCK FALSE\n%s\n" % (
            prof, scn, q if tier == "quick" else t, "\n".join(formulas))
        with open(os.path.join(MC, cfgname), "w") as f:
            f.write(cfg)
        try:
            r = run_tlc("mc-%s-%s" % (pid, scn), MC, "MC_Client", cfgname, timeout=3000, xmx="12g")
        finally:
            os.remove(os.path.join(MC, cfgname))
        if not r["ok"]:
            if "is violated" in r["out"]:
                return None, r
            tlc_failed(r, "MC_Client/" + scn)
        tot_g += r["generated"]; tot_d += r["distinct"]
        runs.append({"instance": "MC_Client/" + scn, "profile": prof, "bounds": q if tier == "quick" else t, "formulas": formulas,
                     "distinct_states": r["distinct"], "transitions": r["generated"], "depth": r["depth"], "wall_s": round(r["wall"], 1)})
    return (tot_d, tot_g, runs), None


# property -> list of (family, share of the walk budget)
FAMILIES = {
    "C02": [("mixed", 0.5), ("retry", 0.3), ("persist", 0.3), ("enum:resume", 0), ("enum:handshake", 0)],
    "C04": [("mixed", 0.5), ("session", 0.3), ("enum:handshake", 0), ("enum:refused", 0), ("enum:deadconnect", 0), ("enum:lossall", 0), ("enum:validconnect", 0), ("react", 0.3), ("enum:react", 0)], "C05": [("mixed", 0.6), ("retry", 0.4), ("enum:resume", 0), ("enum:retrygrid", 0), ("enum:corners", 0), ("react", 0.3), ("enum:react", 0)], "C06": [("inbound", 0.6), ("mixed", 0.3), ("session", 0.2), ("enum:inbound2", 0)],
    "C07": [("subs", 0.6), ("mixed", 0.4), ("enum:corners", 0), ("react", 0.3), ("enum:react", 0)], "C08": [("retry", 0.5), ("mixed", 0.3), ("jitter", 0.3), ("enum:retrygrid", 0), ("enum:resume", 0), ("enum:corners", 0)], "C09": [("qos2", 0.5), ("wrapq2", 0.4), ("mixed", 0.2), ("session", 0.2), ("enum:ids", 0), ("enum:resume", 0)],
    "C10": [("mixed", 0.5), ("persist", 0.4), ("session", 0.3), ("enum:heldback", 0), ("enum:resume", 0), ("react", 0.3), ("enum:react", 0)], "C11": [("session", 0.7), ("mixed", 0.3), ("enum:refused", 0), ("enum:lossall", 0), ("react", 0.3), ("enum:react", 0)], "C12": [("persist", 0.4), ("wrapsess", 0.3), ("session", 0.3), ("mixed", 0.2), ("enum:refused", 0), ("enum:resume", 0), ("enum:lossall", 0), ("enum:heldback", 0)],
    "C13": [("mixed", 0.3), ("session", 0.3), ("retry", 0.2), ("keepalive", 0.2), ("jitter", 0.2), ("enum:refused", 0), ("enum:resume", 0), ("enum:lossall", 0), ("react", 0.3), ("enum:react", 0)], "C14": [("mixed", 0.7), ("session", 0.3), ("enum:handshake", 0), ("enum:refstate", 0), ("enum:pktstate", 0), ("enum:heldback", 0), ("react", 0.3), ("enum:react", 0)],
    "C15": [("keepalive", 0.7), ("mixed", 0.3), ("enum:ka2", 0), ("enum:refused", 0)], "C16": [("enum:inject", 0), ("enum:handshake", 0), ("enum:pktstate", 0), ("mixed", 0.4), ("session", 0.3), ("react", 0.3), ("enum:react", 0)], "C17": [("wrap", 0.5), ("wrapsess", 0.4), ("mixed", 0.2), ("enum:ids", 0), ("react", 0.3), ("enum:react", 0)],
    "C18": [("mixed", 0.4), ("session", 0.4), ("persist", 0.4), ("enum:handshake", 0), ("enum:ids", 0), ("enum:resume", 0), ("enum:heldback", 0), ("react", 0.3), ("enum:react", 0)], "C20": [("enum:args", 0), ("mixed", 0.6)],
}


SIMBOUNDS = "MaxD = 9 MaxGen = 3 MaxN = 3 Windows = {1, 2, 3} MaxId = 65535"


def gen_replay(scn, d, tier, seed):
    """U3: TLC generates behaviours of the specification (simulation mode), harness/replay.py steps them through the real classes"""
    prof = SCN[scn][0]
    sim = os.path.join(d, "sim"); os.makedirs(sim, exist_ok=True)
    cfgname = "SIM_%s_%d.cfg" % (scn, os.getpid())
    with open(os.path.join(MC, cfgname), "w") as f:
        f.write("CONSTANTS\n  Addr = {\"A\"}\n  Profile = \"%s\"\n  Bugs = {}\n  Scn = \"%s\"\n  %s\nSPECIFICATION SimSpec\nCONSTRAINT Bound\nCHECK_DEADLOCK FALSE\n" % (prof, scn, SIMBOUNDS))
    num, depth = (40, 30) if tier == "quick" else (600, 45)
    try:
        r = run_tlc("sim-" + scn, MC, "MC_Client", cfgname, workers=1, xmx="4g", timeout=1800,
                    extra=["-simulate", "file=%s,num=%d" % (os.path.join(sim, "tr"), num), "-depth", str(depth), "-seed", str(seed)])
    finally:
        os.remove(os.path.join(MC, cfgname))
    if not r["ok"]:
        tlc_failed(r, "simulation " + scn)
    out = run_py([os.path.join(VERIF, "harness", "replay.py"), sim, prof, d])
    info = json.loads(out.strip().splitlines()[-1])
    shutil.rmtree(sim, ignore_errors=True)
    return info


def gen_families(pid, w, n, seed, tier):
    """runs the drivers of every family of the property; returns the list of family directories"""
    dirs = []
    fams = list(FAMILIES.get(pid, [("mixed", 1.0)])) + [("replay:" + scn, 0) for scn in U1[pid][0][:2] if scn != "twoaddr"]
    for k, (fam, share) in enumerate(fams):
        d = os.path.join(w, fam.replace(":", "_"))
        if fam.startswith("replay:"):
            gen_replay(fam[7:], d, tier, seed * 101 + k)
        elif fam.startswith("enum:"):
            run_py([os.path.join(VERIF, "harness", "enum_driver.py"), d, fam[5:], tier, str(seed * 101 + k)])
        else:
            run_py([os.path.join(VERIF, "harness", "walk.py"), d, str(max(10, int(n * share))), str(seed * 101 + k), fam])
        dirs.append((fam, d))
    return dirs


def combine(w, dirs, profs=("pub", "sub", "both")):
    """merges the per-profile files of all families: <w>/<profile>.ndjson (for TraceConf) and <w>/all.ndjson (for TraceMon,
    which reads the profile from each line); returns (all path, all index path, index, source of every trace)"""
    idx = []; src = []; n = 0
    allp = os.path.join(w, "all.ndjson")
    with open(allp, "w") as out:
        for p in profs:
            pidx = []; pn = 0
            with open(os.path.join(w, p + ".ndjson"), "w") as pout:
                for fam, d in dirs:
                    path = os.path.join(d, p + ".ndjson")
                    if not os.path.exists(path):
                        continue
                    fidx = json.load(open(os.path.join(d, p + ".idx.json")))
                    base = len(idx)       # trace numbers inside meta (twin / reference traces) are relative to the driver's own file
                    with open(path) as f:
                        for line in f:
                            if fam not in ("react", "enum:react", "jitter", "enum:deadconnect"):      # re-entrant histories are not behaviours of MqttClient (no conformance check)
                                pout.write(line)
                            if base and '"meta"' in line and '"ref":0' not in line:
                                r = json.loads(line)
                                if r["meta"].get("ref"):
                                    r["meta"]["ref"] += base
                                line = json.dumps(r, separators=(",", ":")) + "\n"
                            out.write(line)
                    for k, (a, b) in enumerate(fidx):
                        idx.append([a + n, b + n]); src.append([fam, p, k + 1])
                        if fam not in ("react", "enum:react", "jitter", "enum:deadconnect"):
                            pidx.append([a + pn, b + pn])
                    if fidx:
                        n += fidx[-1][1]
                        if fam not in ("react", "enum:react", "jitter", "enum:deadconnect"):
                            pn += fidx[-1][1]
            json.dump(pidx, open(os.path.join(w, p + ".idx.json"), "w"))
    json.dump(idx, open(os.path.join(w, "all.idx.json"), "w"))
    return allp, os.path.join(w, "all.idx.json"), idx, src


BATCH_BYTES = int(os.environ.get("VERIF_BATCH_BYTES", "14000000"))     # (a 50 MB file of long-string arguments filled an 8 GB heap)
BATCH_LINES = int(os.environ.get("VERIF_BATCH_LINES", "60000"))       # TLC holds the whole JSON file in memory and parses it single-threaded: large runs are judged in batches


def batches(trace, index, w, tag):
    """splits trace/index into self-contained batches (a trace and the reference/twin trace its meta.ref names stay together);
    yields (trace path, index path, number of the first trace - 1, number of traces)"""
    idx = json.load(open(index))
    if not idx or (idx[-1][1] <= BATCH_LINES and os.path.getsize(trace) <= BATCH_BYTES):
        return [(trace, index, 0, len(idx))]
    # ref of every trace (constant inside a trace; read from its first line)
    refs = [0] * (len(idx) + 1)
    starts = {a: k + 1 for k, (a, b) in enumerate(idx)}
    endbyte = {}; pos = 0; ends = {b: k + 1 for k, (a, b) in enumerate(idx)}       # bytes up to the end of every trace
    with open(trace) as f:
        for i, line in enumerate(f, 1):
            k = starts.get(i)
            probe = line if len(line) < 20000 else line[:2000] + line[-2000:]      # (meta sits at an end of the line)
            if k and (('"ref":' in probe and '"ref":0' not in probe) or '"solo":' in probe):
                meta = json.loads(line).get("meta", {})
                named = [meta.get("ref", 0) or 0] + [v for v in (meta.get("solo") or {}).values() if isinstance(v, int)]
                named = [v for v in named if v > 0]
                refs[k] = min(named) if named else 0        # the earliest trace this one names (reference, twin, solo runs)
            pos += len(line)
            if i in ends:
                endbyte[ends[i]] = pos
    # a cut before trace k is allowed iff no trace >= k refers to a trace < k
    minref = [len(idx) + 1] * (len(idx) + 2)
    for k in range(len(idx), 0, -1):
        minref[k] = min(minref[k + 1], refs[k] if refs[k] else len(idx) + 1)
    cuts = [1]; lines0 = idx[0][0]; bytes0 = 0
    for k in range(2, len(idx) + 1):
        if (idx[k - 1][1] - lines0 + 1 > BATCH_LINES or endbyte[k] - bytes0 > BATCH_BYTES) and minref[k] >= k and k > cuts[-1]:
            cuts.append(k); lines0 = idx[k - 1][0]; bytes0 = endbyte[k - 1]
    cuts.append(len(idx) + 1)
    out = []
    with open(trace) as f:
        cur = 0
        for bi in range(len(cuts) - 1):
            k0, k1 = cuts[bi], cuts[bi + 1] - 1            # traces k0..k1
            a0, b1 = idx[k0 - 1][0], idx[k1 - 1][1]
            bp = os.path.join(w, "%s.b%d.ndjson" % (tag, bi + 1)); ip = os.path.join(w, "%s.b%d.idx.json" % (tag, bi + 1))
            with open(bp, "w") as o:
                while cur < b1:
                    line = f.readline(); cur += 1
                    if cur < a0:
                        continue
                    if k0 > 1 and (('"ref":' in line and '"ref":0' not in line) or '"solo":' in line):
                        r = json.loads(line)
                        if r.get("meta", {}).get("ref"):
                            r["meta"]["ref"] -= k0 - 1
                        if isinstance(r.get("meta", {}).get("solo"), dict):
                            r["meta"]["solo"] = {a: (v - (k0 - 1) if isinstance(v, int) and v > 0 else v) for a, v in r["meta"]["solo"].items()}
                        line = json.dumps(r, separators=(",", ":")) + "\n"
                    o.write(line)
            json.dump([[a - a0 + 1, b - a0 + 1] for a, b in idx[k0 - 1:k1]], open(ip, "w"))
            out.append((bp, ip, k0 - 1, k1 - k0 + 1))
    return out


def run_batches(bl, fn):
    """runs fn(batch, workers) over the batches, at most 4 TLC processes at a time"""
    if len(bl) == 1:
        return [fn(bl[0], NCPU)]
    import concurrent.futures as cf
    par = min(4, len(bl))
    with cf.ThreadPoolExecutor(par) as ex:
        return list(ex.map(lambda b: fn(b, max(2, NCPU // par)), bl))


def run_mon(pid, trace, index, name):
    cfg = "TraceMon_%s.cfg" % pid
    w = os.path.dirname(trace)
    bl = batches(trace, index, w, "mon")
    def one(b, workers):
        bp, ip, off, cnt = b
        r = run_tlc("%s-%d" % (name, off), TRACE, "TraceMon", cfg, env={"TRACE_FILE": bp, "INDEX_FILE": ip}, timeout=3000, xmx="8g" if len(bl) == 1 else "5g", workers=workers)
        if not r["ok"]:
            tlc_failed(r, "TraceMon " + pid)
        return r
    rs = run_batches(bl, one)
    acc = {}; rej = {}
    tot = dict(generated=0, distinct=0, wall=0.0, out="")
    for (bp, ip, off, cnt), r in zip(bl, rs):
        for v in verdict_lines(r["out"], ("ACCEPT", "REJECT")):
            v = list(v); v[1] += off
            if v[0] == "ACCEPT":
                acc[v[1]] = v
            else:
                rej.setdefault(v[1], v)
        tot["generated"] += r["generated"]; tot["distinct"] += r["distinct"]; tot["wall"] += r["wall"]
        if bp != trace:
            os.remove(bp); os.remove(ip)
    tot["batches"] = len(bl)
    return acc, rej, tot


def run_conf(w, profs, name):
    """TraceConf per profile; returns (accepted, divergences [(profile, tid, line, op, kind)])"""
    ok = 0; div = []
    for p in profs:
        path = os.path.join(w, p + ".ndjson")
        if not os.path.exists(path) or os.path.getsize(path) == 0:
            continue
        bl = batches(path, os.path.join(w, p + ".idx.json"), w, "conf-" + p)
        def one(b, workers):
            r = run_tlc("%s-%s-%d" % (name, p, b[2]), TRACE, "TraceConf", "TraceConf_%s.cfg" % p,
                        env={"TRACE_FILE": b[0], "INDEX_FILE": b[1]}, timeout=3000, xmx="8g" if len(bl) == 1 else "5g", workers=workers)
            if not r["ok"]:
                # conformance only produces NOTEs: a behaviour the specification's operators cannot even evaluate (it happens
                # with changed sources) must not stand in the way of the verdict, which comes from the property automaton
                print("NOTE conformance run for profile %s did not complete (rc=%s): %s" % (p, r["rc"], tlc_error_text(r).splitlines()[0][:200] if tlc_error_text(r) else ""))
                r["failed"] = True
            return r
        rs = run_batches(bl, one)
        for (bp, ip, off, cnt), r in zip(bl, rs):
            seen = set()
            if r.get("failed"):
                div.append((p, off + 1, 0, "-", "tlc-error"))
            for v in verdict_lines(r["out"], ("ACCEPT", "REJECT")):
                if v[1] in seen:
                    continue
                seen.add(v[1])
                if v[0] == "ACCEPT":
                    ok += 1
                else:
                    div.append((p, v[1] + off, v[2], v[3], v[4]))
            if bp != path:
                os.remove(bp); os.remove(ip)
    return ok, div


def load_trace(trace, idx, k):
    a, b = idx[k - 1]
    out = []
    with open(trace) as f:
        for i, line in enumerate(f, 1):
            if i > b:
                break
            if i >= a:
                out.append(json.loads(line))
    return out


def render(lines, limit=40):
    """readable form of a recorded execution (for evidence samples)"""
    out = []
    for r in lines[:limit]:
        fx = []
        for e in r["fx"]:
            if e["k"] == "write":
                fx.append("write(%s)" % bytes(e["bytes"][:10]).hex())
            elif e["k"] == "arm":
                fx.append("arm(%d)" % e["delay"])
            elif e["k"] == "fire":
                fx.append("fire(d%d,%s)" % (e["d"], "ok" if e["ok"] else e.get("exc")))
            elif e["k"] == "ret":
                fx.append("ret(d%d,mid=%d)" % (e["d"], e["mid"]))
            elif e["k"] == "cb":
                fx.append("cb(%s)" % e["name"])
            elif e["k"] == "close":
                fx.append("close(%s)" % e["how"])
            elif e["k"] == "cancel":
                fx.append("cancel")
            else:
                fx.append("%s(%s)" % (e["k"], e.get("exc", "")))
        s = r["stim"]; op = s["op"]
        if op == "recv":
            op += "(%s)" % bytes(s["bytes"][:10]).hex()
        elif op == "publish":
            op += "(qos=%s)" % s["qos"].get("v")
        elif op == "set":
            op += "(%s=%s)" % (s["what"], s["v"].get("v"))
        elif op == "connect":
            op += "(clean=%s,ka=%s)" % (s["clean"], s["ka"].get("v"))
        out.append("t=%d %s -> %s" % (r["t"], op, " ".join(fx)))
    return out


def stim_key(lines):
    return digest([[l["stim"], len(l["fx"])] for l in lines])


def main(pid, tier, seed, replay=None):
    t0 = time.time()
    if replay:
        rp = json.load(open(replay))
        w = workdir("replay-" + pid)
        tp = os.path.join(w, "t.ndjson")
        with open(tp, "w") as f:
            for l in rp["lines"]:
                f.write(json.dumps(l) + "\n")
        ip = os.path.join(w, "t.idx.json"); json.dump([[1, len(rp["lines"])]], open(ip, "w"))
        acc, rej, _ = run_mon(pid, tp, ip, "replay-" + pid)
        shutil.rmtree(w, ignore_errors=True)
        if rej:
            v = list(rej.values())[0]
            print("line %s: clause %s %s" % (v[2], v[3], v[4]))
            print("VIOLATION property=%s replay=%s" % (pid, replay)); return 1
        print("replay: the recorded execution satisfies %s" % pid); return 0

    mc, bad = mc_u1(pid, tier)
    if bad is not None:
        path = save_replay(pid, "spec-counterexample", {"kind": "tlc-output", "out": bad["out"][-20000:]})
        print("the specification MqttClient violates the direct formulation of %s (specification error or design defect)" % pid)
        print("VIOLATION property=%s replay=%s" % (pid, path)); return 1
    states, trans, runs = mc

    w = workdir("walk-" + pid)
    if pid == "C19":
        run_py([os.path.join(VERIF, "harness", "pair_driver.py"), w, tier, str(seed)])
        trace, index = os.path.join(w, "all.ndjson"), os.path.join(w, "all.idx.json")
        idx = json.load(open(index)); src = [["pairs", "mixed", k + 1] for k in range(len(idx))]
    elif pid == "C03":
        run_py([os.path.join(VERIF, "harness", "chunk_driver.py"), w, tier, str(seed)])
        trace, index = os.path.join(w, "all.ndjson"), os.path.join(w, "all.idx.json")
        idx = json.load(open(index)); src = [["chunk", "both", k + 1] for k in range(len(idx))]
    else:
        dirs = gen_families(pid, w, WALKS[tier], seed, tier)
        trace, index, idx, src = combine(w, dirs)
    acc, rej, rmon = run_mon(pid, trace, index, "mon-" + pid)
    if len(acc) + len(rej) != len(idx):
        raise Machinery("TraceMon judged %d+%d of %d traces" % (len(acc), len(rej), len(idx)))
    # clauses that a property shares with the automaton of another one (the statement of pid includes them) are taken from a
    # run of that automaton over the same executions
    for other, clauses, name in BORROW.get(pid, []):
        acc_o, rej_o, _ = run_mon(other, trace, index, "mon-%s-%s" % (pid, other))
        for k, v in rej_o.items():
            if v[3] in clauses and k not in rej:
                rej[k] = list(v[:3]) + ["%s (%s)" % (name, v[3]), v[4]]; acc.pop(k, None)
    conf_ok, div = (0, []) if pid in ("C03", "C19") else run_conf(w, ("pub", "sub", "both"), "conf-" + pid)
    for d in div[:5]:
        print("NOTE divergence from MqttClient: profile=%s trace=%s line=%s stimulus=%s (%s)" % d)

    known = load_known(pid)
    viol = []; knownhits = collections.Counter()
    for tidk, v in sorted(rej.items()):
        clause = v[3]
        m = [k for k in known if k["clause"] == clause and (not k.get("info") or k["info"] == v[4])]
        if m:
            knownhits[m[0]["what"]] += 1
        else:
            viol.append(v)
    for what, n in knownhits.items():
        print("KNOWN-FINDING: property=%s %s (%d executions)" % (pid, what, n))

    nontriv = set(); samples = []
    for tidk, v in acc.items():
        if v[3] > 0:
            lines = load_trace(trace, idx, tidk) if len(nontriv) < 400 else None
            nontriv.add(stim_key(lines) if lines is not None else ("t", tidk))
            if lines is not None and len(samples) < 2 and 8 <= len(lines) <= 30 and sum(len(json.dumps(l)) for l in lines) < 20000:
                samples.append({"trace": tidk, "profile": lines[0]["profile"], "clause_hits": v[3], "steps": render(lines)})
    if not samples:
        samples.append({"note": "no short accepted trace with clause hits in this run"})
    cov = {"states": states, "transitions": trans, "traces_validated_against_impl": len(acc),
           "evaluations": len(idx), "distinct_nontrivial": len(nontriv),
           "rule": "executions of the real classes produced by seeded random walks (harness/walk.py: all API calls, broker packets in any order / duplicated / "
                   "with foreign identifiers, timer expiries, losses, reconnects, window and timeout changes; families weighted towards the property: "
                   + ", ".join(f for f, _ in FAMILIES.get(pid, [("mixed", 1)])) + "); non-trivial = the automaton of %s "
                   "evaluated at least one clause whose antecedent was true (hit counter printed by TraceMon), distinct by stimulus sequence" % pid,
           "samples": samples, "mc_instances": runs, "driver_families": dict(collections.Counter(x[0] for x in src)),
           "conformance": {"traces_checked_against_MqttClient": conf_ok + len(div), "conforming": conf_ok, "divergences": [list(d) for d in div[:10]]},
           "tracemon": {"accepted": len(acc), "rejected": len(rej), "lines": sum(b - a + 1 for a, b in idx), "wall_s": round(rmon["wall"], 1)},
           "exhaustive": False}
    nv = 0
    if viol:
        v = viol[0]
        lines = load_trace(trace, idx, v[1])
        cut = [l for l in lines if v[2] == 0 or l["n"] <= v[2]]
        path = save_replay(pid, "seed%d-%s-trace%d" % (seed, tier, v[1]),
                           {"kind": "trace", "property": pid, "clause": v[3], "info": v[4], "line": v[2],
                            "regenerate": "./check %s --tier %s --seed %d" % (pid, tier, seed), "lines": cut, "readable": render(cut, 200)})
        for x in viol[:8]:
            print("trace %s line %s: %s %s" % (x[1], x[2], x[3], json.dumps(x[4])[:200]))
        print("VIOLATION property=%s replay=%s" % (pid, path)); nv = len(viol)
    write_evidence(pid, tier, seed, cov, time.time() - t0, nv, ASSUME)
    shutil.rmtree(w, ignore_errors=True)
    print("%s %s: U1 %d states; %d executions judged, %d accepted, %d with clause hits; conformance %d/%d; %s" % (
        pid, tier, states, len(idx), len(acc), len(nontriv), conf_ok, conf_ok + len(div), "VIOLATED" if nv else "held"))
    return 1 if nv else 0


def session_bytes(pid, tier, seed):
    """C02 in live sessions: everything written to the transport by recorded executions is judged by the strict reference
    decoder (TraceMon, Prop = C02).  Returns (executions, accepted, with hits, violations [(tid, line, clause, info)], replay path or None)"""
    w = workdir("walk-" + pid)
    dirs = gen_families(pid, w, WALKS[tier] // 2, seed, tier)
    trace, index, idx, src = combine(w, dirs)
    acc, rej, rmon = run_mon(pid, trace, index, "mon-" + pid)
    if len(acc) + len(rej) != len(idx):
        raise Machinery("TraceMon judged %d+%d of %d traces" % (len(acc), len(rej), len(idx)))
    viol = [v for _, v in sorted(rej.items())]
    # the DUP bit is one of the "mandatory flag bits in the first byte": the retransmission automaton (Prop = C08) is run over the
    # same executions and its two DUP clauses count for C02 as well (its other clauses are C08's own subject)
    acc8, rej8, _ = run_mon("C08", trace, index, "mon-" + pid + "-dup")
    viol += [list(v[:3]) + ["C02.dup_bit_not_as_prescribed (" + v[3] + ")", v[4]] for _, v in sorted(rej8.items())
             if v[3] in ("C08.dup_wrong", "C08.dup_on_first_transmission")]
    path = None
    if viol:
        v = viol[0]
        lines = load_trace(trace, idx, v[1])
        cut = [l for l in lines if v[2] == 0 or l["n"] <= v[2]]
        path = save_replay(pid, "seed%d-%s-session-trace%d" % (seed, tier, v[1]),
                           {"kind": "trace", "property": pid, "clause": v[3], "info": v[4], "line": v[2],
                            "regenerate": "./check %s --tier %s --seed %d" % (pid, tier, seed), "lines": cut, "readable": render(cut, 200)})
    hits = sum(1 for v in acc.values() if v[3] > 0)
    shutil.rmtree(w, ignore_errors=True)
    return len(idx), len(acc), hits, viol, path
