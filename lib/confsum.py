import sys, collections
sys.path.insert(0,'/verif/lib')
from common import verdict_lines
out=open(sys.argv[1]).read()
ls=verdict_lines(out,("ACCEPT","REJECT"))
acc=[l for l in ls if l[0]=="ACCEPT"]; rej=[l for l in ls if l[0]=="REJECT"]
print("accept",len(acc),"reject",len(rej), "distinct tids rejected", len(set(l[1] for l in rej)))
seen=set(); k=0
lim=int(sys.argv[2]) if len(sys.argv)>2 else 8
for l in rej:
    key=(l[3],l[4],str(l[5])[:80],str(l[6])[:80])
    if key in seen: continue
    seen.add(key); k+=1
    if k>lim: break
    print("--- tid",l[1],"line",l[2],l[3],l[4]); print("  spec:",l[5]); print("  log :",l[6]); print("  spec timers:",l[7]); print("  post:",l[8])
