import json,sys
d,prof,tid=sys.argv[1],sys.argv[2],int(sys.argv[3])
idx=json.load(open('%s/%s.idx.json'%(d,prof)))
lines=open('%s/%s.ndjson'%(d,prof)).read().splitlines()
a,b=idx[tid-1]
for l in lines[a-1:b]:
    r=json.loads(l)
    fx=[]
    for e in r['fx']:
        if e['k']=='write': fx.append(('W',bytes(e['bytes'][:8]).hex(),len(e['bytes'])))
        elif e['k']=='arm': fx.append(('arm',e['tm'],e['label']['fn'],e['delay']))
        elif e['k']=='cancel': fx.append(('cancel',e['tm']))
        elif e['k']=='fire': fx.append(('fire',e['d'],e['ok'],e.get('exc'),(e.get('val') or {}).get('v')))
        elif e['k']=='ret': fx.append(('ret',e['d'],e['mid']))
        else: fx.append((e['k'],e.get('how'),e.get('name'),e.get('exc')))
    s=r['stim']; extra={k:(v.get('v') if isinstance(v,dict) else v) for k,v in s.items() if k in('what','v','qos','clean','ka','tm','reason','ver','part','nested','of')}
    if s['op']=='recv': extra=(bytes(s['bytes'][:12]).hex(), s.get('part'))
    print(r['n'],r['t'],s['op'],extra, fx, list(r['post']['state'].values()), r['post']['timers'])
