"""C01 / C02: reference codec model-checked (U1), recorded encode()/decode() calls of the real code judged by TLC (U2)."""
import json, os, time, collections
from common import *

ASSUME = [
    "A7/strict grammar: outbound bytes are judged by MqttCodec!DecodeStrict / Encode written from the OASIS text",
    "payloads above 4096 bytes are not materialised in TLA+: header bytes are compared in TLA+, the body by a Python slice comparison (DESIGN 10)",
    "U+0000 inside strings is not generated (the statement does not list it among the unrepresentable inputs)",
]


def mc_runs(tier):
    tot_g = tot_d = 0; runs = []
    for mod in ("MC_Codec", "MC_CodecPrims"):
        r = run_tlc(mod, os.path.join(SPEC, "mc"), mod, "%s_%s.cfg" % (mod, tier), timeout=3000)
        if not r["ok"]:
            if "is violated" in r["out"] or "Invariant" in r["out"] and "violated" in r["out"]:
                return None, r
            tlc_failed(r, mod)
        tot_g += r["generated"]; tot_d += r["distinct"]
        runs.append({"instance": mod, "distinct_states": r["distinct"], "generated": r["generated"], "wall_s": round(r["wall"], 1)})
    return (tot_d, tot_g, runs), None


def judge(trace_path, name):
    """TraceCodec over the record file, in batches of at most 40 MB (TLC holds the whole JSON in memory)"""
    lines_all = []; gen = 0; wall = 0.0
    batch = []; size = 0; k = 0
    def flush():
        nonlocal batch, size, k, gen, wall
        if not batch:
            return
        k += 1
        bp = "%s.b%d" % (trace_path, k)
        with open(bp, "w") as f:
            f.writelines(batch)
        r = run_tlc("%s-b%d" % (name, k), os.path.join(SPEC, "trace"), "TraceCodec", "TraceCodec.cfg", env={"TRACE_FILE": bp}, timeout=3000, xmx="12g")
        os.remove(bp)
        if not r["ok"]:
            tlc_failed(r, "TraceCodec")
        lines_all.extend(verdict_lines(r["out"], ("OK", "REJECT"))); gen += r["generated"]; wall += r["wall"]
        batch = []; size = 0
    with open(trace_path) as f:
        for line in f:
            if size + len(line) > 40_000_000 and batch:
                flush()
            batch.append(line); size += len(line)
    flush()
    return lines_all, {"generated": gen, "wall": wall}


def main(pid, tier, seed, replay=None):
    t0 = time.time()
    w = workdir("codec-" + pid)
    if replay:
        rp = json.load(open(replay))
        if rp.get("kind") == "trace":          # a recorded session (second observation point of C02)
            import client_check as CC
            return CC.main(pid, tier, seed, replay)
        path = os.path.join(w, "replay.ndjson")
        with open(path, "w") as f:
            for r in rp["records"]:
                f.write(json.dumps(r) + "\n")
        lines, _ = judge(path, "replay-" + pid)
        bad = [l for l in lines if l[0] == "REJECT" and any(c.startswith(pid + ".") for c in l[2])]
        for l in bad:
            print("record %s rejected: %s" % (l[1], [c for c in l[2] if c.startswith(pid)]))
        if bad:
            print("VIOLATION property=%s replay=%s" % (pid, replay)); return 1
        print("replay: no violation of %s in the recorded calls" % pid); return 0

    mc, bad_mc = mc_runs(tier)
    if bad_mc is not None:
        path = save_replay(pid, "spec-counterexample", {"kind": "tlc-output", "out": bad_mc["out"][-6000:]})
        print("the reference codec violates its own invariants (specification error)")
        print("VIOLATION property=%s replay=%s" % (pid, path)); return 1
    states, trans, runs = mc

    trace = os.path.join(w, "codec.ndjson")
    n = int(run_py([os.path.join(VERIF, "harness", "codec_driver.py"), trace, tier, str(seed)]).strip().splitlines()[-1])
    lines, r = judge(trace, "codec-" + pid)
    ok = {l[1]: l[2] for l in lines if l[0] == "OK"}
    rej = {l[1]: l[2] for l in lines if l[0] == "REJECT"}
    if len(ok) + len(rej) != n or set(ok) & set(rej):
        raise Machinery("TraceCodec judged %d+%d of %d records" % (len(ok), len(rej), n))
    mine = {i: [c for c in cl if c.startswith(pid + ".")] for i, cl in rej.items()}
    mine = {i: c for i, c in mine.items() if c}

    # evidence: distinct non-trivial = distinct inputs for which a clause of this property had a true antecedent
    kinds = collections.Counter(ok.values())
    seen = set(); samples = []; elems = 0
    recs = {}
    with open(trace) as f:
        for line in f:
            rec = json.loads(line)
            if rec["id"] in mine:
                recs[rec["id"]] = rec
            k = ok.get(rec["id"])
            nontrivial = k in ("pkt.valid", "wire.wellformed", "prims") or (pid == "C02" and k == "pkt.unrepresentable")
            if pid == "C01" and k in ("wire.wellformed", "pkt.unrepresentable"):
                nontrivial = False
            if not nontrivial:
                continue
            if rec["op"] in ("int16", "len", "str"):
                for x in rec["ins"]:
                    seen.add(digest([rec["op"], x])); elems += 1
            else:
                seen.add(digest([rec["op"], rec.get("t"), rec.get("fin"), rec.get("bytes")]))
            if len(samples) < 3 and rec["op"] == "pkt" and len(line) < 600 and rec["id"] % 97 == 5:
                samples.append({"type": rec["t"], "fields_in": rec["fin"], "encode": rec["enc"], "decode": rec["dec"]})
    if not samples:
        samples.append({"note": "no short record sampled"})
    cov = {
        "states": states, "transitions": trans, "traces_validated_against_impl": len(ok),
        "evaluations": n + elems, "distinct_nontrivial": len(seen),
        "rule": "records = calls of the real encode()/decode() (boundary enumeration of every field, all flag combinations x id boundaries, "
                "string byte-length classes from 1..4-byte code points, remaining-length boundaries, unrepresentable inputs, broker-format bytes, "
                "hypothesis-generated field assignments, primitive codecs element-wise); non-trivial = a clause of %s had a true antecedent "
                "(valid input round-tripped / bytes compared with the reference / unrepresentable input), distinct by input" % pid,
        "samples": samples, "mc_instances": runs, "records_by_kind": dict(kinds),
        "trace_tlc": {"generated": r["generated"], "wall_s": round(r["wall"], 1)}, "exhaustive": False,
        "rejected_records_other_property": len(rej) - len(mine),
    }
    viol = 0
    if pid == "C02":
        # the second observation point of C02: the bytes handed to transport.write() during live sessions
        import client_check as CC
        n_s, acc_s, hit_s, viol_s, path_s = CC.session_bytes(pid, tier, seed)
        cov["sessions"] = {"executions": n_s, "accepted": acc_s, "with_packets_written": hit_s,
                           "rule": "executions of the client recorded by the drivers (families mixed, retry, persist, enum:resume, enum:handshake); every "
                                   "packet written is decoded by MqttCodec!DecodeStrict for the protocol level in force (TraceMon, Prop = C02)"}
        cov["traces_validated_against_impl"] += acc_s
        for x in viol_s[:8]:
            print("session trace %s line %s: %s %s" % (x[1], x[2], x[3], json.dumps(x[4])[:200]))
        if viol_s:
            print("VIOLATION property=%s replay=%s" % (pid, path_s)); viol += len(viol_s)
    if mine:
        first = sorted(mine)[:20]
        path = save_replay(pid, "seed%d-%s" % (seed, tier), {"kind": "codec-records", "regenerate": "./check %s --tier %s --seed %d" % (pid, tier, seed),
                                                            "clauses": {str(i): mine[i] for i in first}, "records": [shrink(recs[i]) for i in first]})
        for i in first[:10]:
            print("record %d (%s): %s" % (i, recs[i].get("t", recs[i]["op"]), mine[i]))
        print("VIOLATION property=%s replay=%s" % (pid, path)); viol += len(mine)
    write_evidence(pid, tier, seed, cov, time.time() - t0, viol, ASSUME)
    shutil.rmtree(w, ignore_errors=True)
    print("%s %s: %d records judged (%d ok)%s, U1 %d states; %s" % (pid, tier, n, len(ok),
          (", %d sessions judged (%d accepted)" % (cov["sessions"]["executions"], cov["sessions"]["accepted"])) if "sessions" in cov else "",
          states, "VIOLATED" if viol else "held"))
    return 1 if viol else 0


def shrink(rec):
    return rec
