"""Shared machinery of /verif/check: running TLC, parsing its verdict lines, evidence, known findings."""
import json, os, re, shutil, subprocess, sys, time, hashlib

VERIF = os.path.dirname(os.path.dirname(os.path.abspath(__file__)))
SPEC = os.path.join(VERIF, "spec")
# VERIF_SCRATCH (used by bin/seed.sh, seedall.sh, benign.sh): runs against changed sources keep their work files, replays
# and evidence away from /verif, so that they neither collide with a registered check nor overwrite its evidence
_SCR = os.environ.get("VERIF_SCRATCH")
WORK = os.path.join(_SCR or VERIF, "work")
REPLAYS = os.path.join(_SCR or VERIF, "replays")
EVIDENCE = os.path.join(_SCR or VERIF, "evidence")
PY = "/venv/bin/python"
JAR = "/opt/veriftools/tla/tla2tools.jar:/opt/veriftools/tla/CommunityModules-deps.jar"
NCPU = os.cpu_count() or 4


class Machinery(Exception):
    """the machinery failed (exit 2); never reported as a pass"""


def workdir(name):
    d = os.path.join(WORK, name)
    shutil.rmtree(d, ignore_errors=True)
    os.makedirs(d)
    return d


def run_tlc(name, moddir, module, cfg, env=None, workers=None, xmx="6g", timeout=3600, extra=(), xss="32m"):
    """runs TLC on moddir/module.tla with moddir/cfg; returns dict(rc, out, generated, distinct, depth, wall)"""
    w = workdir("tlc-" + name)
    tmp = os.path.join(w, "tmp"); os.makedirs(tmp)
    cmd = ["java", "-XX:+UseParallelGC", "-Xmx" + xmx, "-Xss" + xss, "-Djava.io.tmpdir=" + tmp,
           "-DTLA-Library=" + ":".join([SPEC, os.path.join(SPEC, "mc"), os.path.join(SPEC, "trace")]),
           "-cp", JAR, "tlc2.TLC", "-workers", str(workers or NCPU), "-metadir", os.path.join(w, "md"),
           "-noGenerateSpecTE", "-config", cfg] + list(extra) + [module + ".tla"]
    e = dict(os.environ); e.update(env or {})
    t0 = time.time()
    try:
        p = subprocess.run(cmd, cwd=moddir, env=e, stdout=subprocess.PIPE, stderr=subprocess.STDOUT, timeout=timeout)
        out = p.stdout.decode("utf-8", "replace"); rc = p.returncode
    except subprocess.TimeoutExpired as ex:
        out = (ex.stdout or b"").decode("utf-8", "replace") + "\nTIMEOUT"; rc = -9
    finally:
        shutil.rmtree(w, ignore_errors=True)
    r = dict(rc=rc, out=out, wall=time.time() - t0, generated=0, distinct=0, depth=0)
    m = re.search(r"(\d+) states generated, (\d+) distinct states found, (\d+) states left", out)
    if m:
        r["generated"], r["distinct"] = int(m.group(1)), int(m.group(2))
    m = re.search(r"depth of the complete state graph search is (\d+)", out)
    if m:
        r["depth"] = int(m.group(1))
    r["ok"] = "Model checking completed. No error has been found." in out or ("Simulation using seed" in out and "Error" not in out and rc == 0)
    return r


def tlc_error_text(r):
    """the part of TLC's output that says what went wrong (first 'Error:' block) plus the last lines"""
    lines = r["out"].splitlines()
    k = next((i for i, l in enumerate(lines) if l.startswith("Error:") or "Exception" in l), None)
    head = lines[k:k + 14] if k is not None else []
    return "\n".join(head + ["..."] + lines[-12:])


def tlc_failed(r, what):
    raise Machinery("TLC run '%s' did not complete (rc=%s)\n%s" % (what, r["rc"], tlc_error_text(r)))


# ------------------------------------------------------------------ TLA+ value parser (for PrintT lines and dumps)
class _P:
    def __init__(self, s, i=0):
        self.s = s; self.i = i
    def ws(self):
        while self.i < len(self.s) and self.s[self.i] in " \t\r\n":
            self.i += 1
    def val(self):
        self.ws(); s = self.s; c = s[self.i]
        if s.startswith("<<", self.i):
            self.i += 2; out = []
            while True:
                self.ws()
                if s.startswith(">>", self.i):
                    self.i += 2; return out
                out.append(self.val()); self.ws()
                if s[self.i] == ",":
                    self.i += 1
        if c == '"':
            j = self.i + 1; buf = []
            while s[j] != '"':
                if s[j] == "\\":
                    j += 1
                buf.append(s[j]); j += 1
            self.i = j + 1; return "".join(buf)
        if c == "{":
            self.i += 1; out = []
            while True:
                self.ws()
                if s[self.i] == "}":
                    self.i += 1; return {"$set": out}
                out.append(self.val()); self.ws()
                if s[self.i] == ",":
                    self.i += 1
        if c == "[":
            self.i += 1; out = {}
            self.ws()
            if s[self.i] == "]":
                self.i += 1; return out
            while True:
                self.ws()
                m = re.compile(r"[A-Za-z_][A-Za-z0-9_]*").match(s, self.i)
                key = m.group(0); self.i = m.end(); self.ws()
                assert s.startswith("|->", self.i), s[self.i:self.i + 20]
                self.i += 3
                out[key] = self.val(); self.ws()
                if s[self.i] == ",":
                    self.i += 1; continue
                if s[self.i] == "]":
                    self.i += 1; return out
        if c == "(":           # function display (a :> b @@ c :> d)
            self.i += 1; out = {}
            while True:
                k = self.val(); self.ws(); assert s.startswith(":>", self.i); self.i += 2
                v = self.val(); out[json.dumps(k) if not isinstance(k, (str, int)) else k] = v; self.ws()
                if s.startswith("@@", self.i):
                    self.i += 2; continue
                if s[self.i] == ")":
                    self.i += 1; return {"$fn": out}
        m = re.compile(r"-?\d+").match(s, self.i)
        if m:
            self.i = m.end(); return int(m.group(0))
        m = re.compile(r"TRUE|FALSE").match(s, self.i)
        if m:
            self.i = m.end(); return m.group(0) == "TRUE"
        m = re.compile(r"[A-Za-z_][A-Za-z0-9_]*").match(s, self.i)
        if m:
            self.i = m.end(); return {"$mv": m.group(0)}
        raise ValueError("cannot parse TLA+ value at %r" % s[self.i:self.i + 40])


def parse_tla(s):
    return _P(s).val()


def verdict_lines(out, tags=("ACCEPT", "REJECT", "OK", "NOTE", "HIT")):
    """all <<"TAG", ...>> tuples printed by PrintT, found by bracket matching (robust to interleaving of lines)"""
    res = []
    for m in re.finditer(r'<<\s*"(%s)"' % "|".join(tags), out):
        try:
            res.append(_P(out, m.start()).val())
        except Exception:
            pass
    return res


# ------------------------------------------------------------------ evidence, findings, verdict
def write_evidence(pid, tier, seed, coverage, wall, violations, assumptions):
    os.makedirs(EVIDENCE, exist_ok=True)
    ev = {"property_id": pid, "tier": tier, "seed": seed, "level": "model_checking", "coverage": coverage,
          "assumptions": assumptions, "wall_s": round(wall, 2), "violations": violations}
    # minimal structural validation (jsonschema is not installed in /venv)
    c = coverage
    assert isinstance(c.get("states"), int) and c["states"] >= 1, "states"
    assert isinstance(c.get("transitions"), int) and c["transitions"] >= 1, "transitions"
    assert isinstance(c.get("traces_validated_against_impl"), int)
    assert isinstance(c.get("samples"), list) and len(c["samples"]) >= 1, "samples"
    assert isinstance(c.get("evaluations"), int) and isinstance(c.get("distinct_nontrivial"), int)
    tmp = os.path.join(EVIDENCE, pid + ".json.tmp")
    with open(tmp, "w") as f:
        json.dump(ev, f, indent=1)
    os.replace(tmp, os.path.join(EVIDENCE, pid + ".json"))


def load_known(pid):
    p = os.path.join(VERIF, "known_findings.json")
    if not os.path.exists(p):
        return []
    d = json.load(open(p))
    return [f for f in d.get("findings", []) if f["property"] == pid and f.get("status") == "open"]


def save_replay(pid, name, payload):
    os.makedirs(REPLAYS, exist_ok=True)
    path = os.path.join(REPLAYS, "%s-%s.json" % (pid, name))
    with open(path, "w") as f:
        json.dump(payload, f, indent=1)
    return path


def digest(obj):
    return hashlib.sha1(json.dumps(obj, sort_keys=True, separators=(",", ":")).encode()).hexdigest()


def run_py(args, env=None, timeout=3600):
    e = dict(os.environ); e["PYTHONHASHSEED"] = "0"; e["PYTHONPATH"] = os.path.join(VERIF, "harness"); e["PYTHONDONTWRITEBYTECODE"] = "1"
    e.update(env or {})
    p = subprocess.run([PY] + args, cwd=VERIF, env=e, stdout=subprocess.PIPE, stderr=subprocess.PIPE, timeout=timeout)
    if p.returncode != 0:
        raise Machinery("driver failed: %s\n%s\n%s" % (" ".join(args), p.stdout.decode()[-2000:], p.stderr.decode()[-4000:]))
    return p.stdout.decode()
