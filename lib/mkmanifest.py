#!/usr/bin/env python3
"""regenerates /verif/MANIFEST.json from the table below (claimed checks) - run after adding a check"""
import json, subprocess
props = [json.loads(l) for l in open('/verif/properties.jsonl')]
CODEC_NOTE = ("Trusted: TLC, the TLA+ reference codec spec/MqttCodec.tla (written from the OASIS text, self-checked by MC_Codec/MC_CodecPrims), "
              "the recording driver harness/codec_driver.py (no expected values). Bodies above 4096 bytes are compared by a Python slice comparison, headers in TLA+.")
CLIENT_NOTE = ("Exhaustive only within the bounds of the MC_Client scenarios (1 address, 3-6 requests, 1-3 connections, identifier modulus 3); beyond them the evidence is "
               "sampled executions of the real classes judged by the same TLA+ automaton. Assumptions A1-A7 of DESIGN.md 2.4 (one protocol per transport, asynchronous close, "
               "ideal reactor in virtual time, jitter pinned, callbacks do not raise). Trusted: TLC, harness/world.py (applies stimuli, records effects, no expected values), Twisted.")
TECH_CLIENT = "TLC model checking of the TLA+ client specification + TLC trace validation (property automaton and conformance) of recorded executions of the real classes"
CLAIMED = {
 "C01": ("TLC proves on the TLA+ reference codec that Decode is the inverse of Encode for a complete bounded family of packets (all 14 types, all flag combinations, id boundaries, 1-4 byte code points) and that the primitive codecs are inverse on their whole domains; recorded calls of the real encode()/decode() over boundary enumerations and hypothesis-generated fields are judged by TLC against that reference (round trip, determinism).",
         "tla-codec", CODEC_NOTE, "TLA+ reference codec model-checked with TLC + TLC trace validation of recorded encode/decode calls of the real code", "DESIGN.md 4.1, 7 (C01)"),
 "C02": ("Recorded outputs of the real encode() are compared byte for byte by TLC with Encode of the TLA+ reference codec (both protocol versions), unrepresentable inputs must raise ValueError/TypeError, broker-format bytes handed to the real decode() must give the fields the strict reference decoder assigns; the reference itself is model-checked.",
         "tla-codec", CODEC_NOTE, "TLA+ reference codec model-checked with TLC + TLC trace validation of recorded encode/decode calls of the real code", "DESIGN.md 4.1, 7 (C02)"),
}
CLIENT_TEXT = {
 "C04": "U1: TLC checks on MqttClient (handshake and keepalive scenarios, every interleaving of connect / CONNACK codes / timeout / loss / duplicate CONNACK) that the connect Deferred fires in exactly one of the three ways and that every loss leaves the protocol idle with exactly one notification armed when a handler is set. U2: executions of the real classes are judged step by step by the TLA+ automaton OK_C04 (connect effects, justified outcome, exactly-once, notification owed/delivered) and checked for conformance with MqttClient.",
 "C05": "U1: TLC checks on MqttClient (publisher and session scenarios: acknowledgements for any identifier in any order, duplicated, retry expiries, losses) that a publish Deferred succeeds only in the step receiving the acknowledgement its QoS requires. U2: executions of the real classes judged by the automaton OK_C05 (QoS 0 fired at return, msgId = wire id = callback value, success only with PUBACK / PUBREC-then-PUBCOMP, at most once).",
 "C14": "U1: TLC checks on MqttClient (handshake scenario, every operation and broker packet type in every reachable state of each profile) that operations outside their states/profiles are refused with MQTTStateError without any effect and that unexpected packets change nothing. U2: executions of the real classes judged by the automaton OK_C14 over the derived protocol state, which must also equal the logged protocol.state.",
 "C18": "U1: TLC checks on MqttClient that nothing is written before connect(), after disconnect() or after the loss, that CONNECT/DISCONNECT are written only by connect()/disconnect(), and that only client packet types are written. U2: the bytes written on every connection of every execution of the real classes are reassembled and parsed by the strict TLA+ reference decoder inside the automaton OK_C18.",
 "C08": "U1: TLC checks on MqttClient (publisher, subscriber scenarios, up to 2-3 consecutive expiries, both protocol versions) that every packet awaiting acknowledgement on a live connection has exactly one retry timer and none otherwise. U2: executions of the real classes judged by the automaton OK_C08: every expiry of the timer of an unacknowledged packet on a live connection re-sends it (same bytes but DUP), DUP rules per version, repeats only on expiry or resumption, spacing >= initial timeout, PUBLISH gaps non-decreasing.",
 "C09": "U1: TLC checks on MqttClient (publisher, session scenarios; PUBREC/PUBCOMP in any order, duplicated, expiries of both timers, loss and persistent reconnect at every point) that no PUBLISH is written for an identifier whose PUBREL has been written and that PUBREL is written only after PUBREC. U2: executions of the real classes judged by the automaton OK_C09 (per QoS 2 request phases new/pub/rel).",
 "C10": "U1: TLC checks on MqttClient (publisher, session scenarios, window changed at any time) the window bound at every first transmission and that nothing is stranded while the connection is up. U2: executions of the real classes judged after every step by the automaton OK_C10 (acceptance, FIFO first transmissions with DUP=0, window bound over requests without PUBACK/PUBREC, nothing stranded).",
 "C13": "U1: TLC checks in every reachable state of MqttClient (publisher, session, keepalive scenarios) that the pending timers are exactly those justified by the state. U2: executions of the real classes judged by the automaton OK_C13 (no write for a settled request, one timer per packet, only notification timers while connected and idle, nothing written after the loss, no timer of a lost connection survives its notification and CONNACK timeout).",
 "C17": "U1: TLC checks on MqttClient with identifier modulus 3 (counter wraps several times while requests are unfinished) that unfinished requests never share an identifier. U2: executions of the real classes with the counter placed at 65528..65535 judged by the automaton OK_C17 (identifier of a new request not carried by any unfinished request of the factory; wire identifiers in 1..65535).",
}
for k, v in CLIENT_TEXT.items():
    CLAIMED[k] = (v, "tla-client", CLIENT_NOTE, TECH_CLIENT, "DESIGN.md 4.3-4.5, 5.3, 7 (%s)" % k)

m = {"version": 1, "setup_cmd": "true",
     "hooks": {"guard": "TWISTED_MQTT_VERIF", "enable": "no source hooks: the harness observes public API only (DESIGN.md 3.2); checks import /repo/src directly",
               "baseline_off_cmd": "cd /repo && /venv/bin/python -m pytest -q -p no:cacheprovider", "source_commits": [], "add_only": True},
     "engines": [
        {"name": "tla-codec", "path": "/verif/spec/MqttCodec.tla", "serves_properties": ["C01", "C02"],
         "kind_free_text": "TLA+ reference codec; TLC model checking (spec/mc/MC_Codec*.tla) and trace validation (spec/trace/TraceCodec.tla) of records produced by harness/codec_driver.py from the real pdu.py"},
        {"name": "tla-client", "path": "/verif/spec/MqttClient.tla", "serves_properties": sorted(k for k in CLAIMED if k not in ("C01", "C02")),
         "kind_free_text": "TLA+ specification of the client state machine (spec/MqttClient.tla, MqttArgs, MqttFraming), bounded model checking (spec/mc/MC_Client.tla), property automata and conformance as TLA+ trace specifications (spec/trace/TraceMon.tla, TraceConf.tla) over executions recorded by harness/world.py + drivers"}],
     "checks": [], "notes": "Model-based verification with explicit TLA+ specifications (spec/), TLC model checking, trace validation of the real classes and replay of TLC behaviours. See DESIGN.md.",
     "not_applicable": []}
for p in props:
    pid = p["id"]
    if pid in CLAIMED:
        text, eng, note, tech, ref = CLAIMED[pid]
        m["checks"].append({"property_id": pid, "quick_cmd": "./check %s --tier quick" % pid, "thorough_cmd": "./check %s --tier thorough" % pid,
                            "evidence_file": "/verif/evidence/%s.json" % pid, "replay_cmd_template": "./check %s --replay {path}" % pid, "engine": eng,
                            "level_claimed": {"category": "model_checking", "text": text, "design_ref": ref}, "level_note": note, "technique": tech})
    else:
        m["not_applicable"].append({"property_id": pid, "reason": "check not built yet in this round (work in progress; see DESIGN.md section 11)"})
json.dump(m, open('/verif/MANIFEST.json', 'w'), indent=1)
print("claimed:", [c["property_id"] for c in m["checks"]])
