"""Seeded random walks over the real classes: the generic driver behind conformance (TraceConf) and several automata.

usage: walk.py <outdir> <ntraces> <seed> [family]
writes <outdir>/<profile>.ndjson and <outdir>/<profile>.idx.json (first/last line of every trace)
"""
import sys, json, random, os
import world as W

TOPICS = ["t", "a/b", "é/€", "x/😀/y"]
PAYLOADS = ["", "x", "hello", "ñandú", bytearray(b"\x00\xff\x10"), bytearray(b"z" * 40)]


HORIZON = 2 ** 28        # ticks (about 3 days): keeps every time and delay inside TLC's 32-bit integers


class Broker(object):
    """remembers what the client wrote so that answers can refer to real identifiers (driver utility)"""
    def __init__(self):
        self.seen = {"PUBLISH1": [], "PUBLISH2": [], "PUBREL": [], "SUBSCRIBE": [], "UNSUBSCRIBE": []}

    def observe(self, line):
        for e in line["fx"]:
            if e["k"] != "write":
                continue
            b = e["bytes"]; ty = b[0] >> 4
            # skip the remaining-length field
            i = 1
            while b[i] & 0x80:
                i += 1
            i += 1
            if ty == 3:
                q = (b[0] >> 1) & 3
                if q:
                    tl = b[i] * 256 + b[i + 1]; mid = b[i + 2 + tl] * 256 + b[i + 3 + tl]
                    self.seen["PUBLISH%d" % q].append(mid)
            elif ty == 6:
                self.seen["PUBREL"].append(b[i] * 256 + b[i + 1])
            elif ty == 8:
                self.seen["SUBSCRIBE"].append((b[i] * 256 + b[i + 1], count_topics(b[i + 2:], True)))
            elif ty == 10:
                self.seen["UNSUBSCRIBE"].append(b[i] * 256 + b[i + 1])


def count_topics(b, withq):
    n = 0; i = 0
    while i < len(b):
        l = b[i] * 256 + b[i + 1]; i += 2 + l + (1 if withq else 0); n += 1
    return n


def reaction(w, rnd, a):
    """an API call the application makes from inside a callback (stage 3)"""
    k = rnd.random()
    if k < 0.35:
        q = rnd.choice([0, 1, 2]); return lambda: w.publish(a, rnd.choice(TOPICS), "re-" + str(q), q)
    if k < 0.55:
        return lambda: w.subscribe(a, [("re/" + a, 1)])
    if k < 0.7:
        return lambda: w.unsubscribe(a, ["re/" + a])
    if k < 0.9:
        return lambda: w.disconnect(a)
    # (A1: connect() is not called on a protocol whose transport is gone)
    return lambda: w.t[a].phase == "open" and w.connect(a, keepalive=0, cleanStart=True)


def walk(w, rnd, profile, steps, opts):
    a = "A"
    br = Broker()
    def do(line):
        br.observe(line)
        if opts.get("react"):
            # now and then the application reacts to the outcome of the request just made, or to the next callback
            for e in line["fx"]:
                if e["k"] == "ret" and e["d"] in line["post"]["pending"] and rnd.random() < 0.45:
                    w.on_deferred(e["d"], rnd.choice(["ok", "ok", "fail"]), reaction(w, rnd, a))
            if rnd.random() < 0.12:
                w.on_cb(a, rnd.choice(["onPublish", "onMqttConnectionMade", "onMqttConnectionMade", "onDisconnection"]), reaction(w, rnd, a))
        return line
    w.fire_limit = opts.get("fire_limit", 12)
    do(w.build(a))
    if opts.get("wrap"):
        do(w.pokeid(rnd.randint(65528, 65535)))
    for h in ("onDisconnection", "onPublish", "onMqttConnectionMade"):
        if rnd.random() < 0.8:
            do(w.set(a, h, 1))
    gens = 1; fires = [0]; cur_ka = [0]
    inbound_ids = [5, 6, 7]
    for _ in range(steps):
        p = w.p[a]; st = W.state_name(p); tr = w.t[a].phase
        r = rnd.random()
        choices = []
        wt = opts.get("wt", {})
        if tr == "lost":
            if gens < opts.get("maxgen", 3) and rnd.random() < 0.7:
                do(w.build(a)); gens += 1
                for h in ("onDisconnection", "onPublish"):
                    if rnd.random() < 0.8:
                        do(w.set(a, h, 1))
                continue
            elif w.due() and w.due()[0].at < HORIZON and w.in_range(w.due()[0]):
                do(w.fire(w.due()[0])); continue
            else:
                break
        if st == "IdleState":
            choices += [("connect", 6)]
        if st == "ConnectingState" and tr in ("open", "closing"):
            choices += [("connack", 6), ("connack_bad", 1)]
        choices += [("publish", wt.get("publish", 5) if st != "IdleState" else 1), ("subscribe", wt.get("subscribe", 2) if st == "ConnectedState" else 0.3),
                    ("unsubscribe", wt.get("unsubscribe", 1.5) if st == "ConnectedState" else 0.3), ("set", wt.get("set", 1.2)), ("fire", wt.get("fire", 2.5)),
                    ("idle", wt.get("idle", 0.5)), ("lost", wt.get("lost", 0.6)), ("disconnect", wt.get("disconnect", 0.25)), ("connect", 0.2),
                    ("pokeid", 0.5 if opts.get("wrap") else 0), ("garbage", wt.get("garbage", 0))]
        if st == "ConnectedState" and tr in ("open", "closing"):
            choices += [("ack", wt.get("ack", 7)), ("inbound", wt.get("inbound", 3) if profile != "pub" else 0.3), ("pingresp", 2.5 if opts.get("wt", {}).get("idle", 0) > 1 else 0.7), ("stray", 0.7)]
        tot = sum(c[1] for c in choices); x = rnd.random() * tot
        for name, wt in choices:
            x -= wt
            if x <= 0:
                break
        if name == "connect":
            kw = {}
            if rnd.random() < 0.2:
                kw = dict(willTopic="w/t", willMessage="bye", willQoS=rnd.randint(0, 2), willRetain=rnd.random() < 0.5)
            elif rnd.random() < 0.1:
                kw = dict(willQoS=rnd.randint(0, 2), willRetain=rnd.random() < 0.5)       # will options without a will: not used
            if rnd.random() < 0.2:
                kw.update(username="u", password=rnd.choice(["pw", "pä€"]))
            ka = rnd.choice(opts.get("ka", [0, 0, 0, 2, 5]))
            if rnd.random() < 0.06:
                ka = rnd.choice([-1, 65536, None])
            cur_ka[0] = ka if isinstance(ka, int) and 0 < ka <= 65535 else 0
            do(w.connect(a, clientId=rnd.choice(["c", "client-é", "x" * 24]), keepalive=ka,
                         cleanStart=rnd.random() < opts.get("clean", 0.5), version=rnd.choice([3, 4, 4]), **kw))
        elif name == "connack":
            do(w.recv(a, W.connack(0, rnd.randint(0, 1))))
        elif name == "connack_bad":
            do(w.recv(a, W.connack(rnd.choice([1, 2, 3, 4, 5]), 0)))
        elif name == "publish":
            q = rnd.choice(opts.get("qos", [0, 1, 1, 2, 2]))
            if rnd.random() < 0.04:
                q = rnd.choice([3, -1, None])
            pl = rnd.choice(PAYLOADS)
            if rnd.random() < 0.03:
                pl = rnd.choice([5, None])
            do(w.publish(a, rnd.choice(TOPICS), pl, q, rnd.random() < 0.2))
        elif name == "subscribe":
            k = rnd.random()
            if k < 0.3:
                do(w.subscribe(a, rnd.choice(TOPICS), rnd.choice([0, 1, 2, 2, 3] if rnd.random() < 0.1 else [0, 1, 2])))
            elif k < 0.55:
                do(w.subscribe(a, (rnd.choice(TOPICS), rnd.randint(0, 2))))
            elif k < 0.95:
                do(w.subscribe(a, [(rnd.choice(TOPICS), rnd.randint(0, 2)) for _ in range(rnd.randint(1, 3))]))
            else:
                do(w.subscribe(a, rnd.choice([5, None, [], []])))       # (an empty list names no topic at all)
        elif name == "unsubscribe":
            k = rnd.random()
            if k < 0.45:
                do(w.unsubscribe(a, rnd.choice(TOPICS)))
            elif k < 0.95:
                do(w.unsubscribe(a, [rnd.choice(TOPICS) for _ in range(rnd.randint(1, 3))]))
            else:
                do(w.unsubscribe(a, rnd.choice([5, None, [], []])))
        elif name == "set":
            k = rnd.random()
            if k < 0.5:
                do(w.set(a, "window", rnd.choice([1, 1, 2, 3, 4, 16] if rnd.random() < 0.92 else [0, 17, None])))
            elif k < 0.7:
                do(w.set(a, "timeout", rnd.choice([1, 2, 4, 7, 1024] if rnd.random() < 0.92 else [0, 1025])))
            elif k < 0.85:
                do(w.set(a, "bandwith", rnd.choice([1000, 10000, 1, 1000000] if rnd.random() < 0.92 else [0, -5]), rnd.choice(opts.get("factors", [None, 1, 2, 3]))))
            else:
                do(w.set(a, rnd.choice(["onPublish", "onDisconnection", "onMqttConnectionMade"]), rnd.randint(0, 1)))
        elif name == "fire":
            if w.due() and w.due()[0].at < HORIZON and fires[0] < opts.get("maxfires", 10):
                dc = rnd.choice(w.due())
                if w.in_range(dc):
                    fires[0] += 1; do(w.fire(dc))
        elif name == "idle":
            ps = W.clock.pending()
            room = (ps[0].at - W.clock.now) if ps else max(5000, 1536 * cur_ka[0])     # with nothing pending, more than a keepalive period may pass
            if room > 0:
                do(w.idle(rnd.randint(1, room)))
        elif name == "lost":
            do(w.lost(a, rnd.choice(["done", "lost"])))
        elif name == "disconnect":
            do(w.disconnect(a))
        elif name == "pokeid":
            inuse = w.pending_mids()
            if inuse and rnd.random() < 0.5:      # the counter placed so that the next identifiers run into those of unfinished requests
                target = rnd.choice(inuse) - rnd.choice([0, 0, 1, 2])
                do(w.pokeid((target - 2) % 65535 + 1))
            else:
                do(w.pokeid(rnd.randint(65528, 65535)))
        elif name == "garbage":
            if tr in ("open", "closing"):
                do(w.recv(a, bytes([rnd.choice([0x00, 0xF0, 0x10, 0x82, 0xE0, 0x30, 0x40, 0x20, 0x90]), rnd.choice([0, 1, 2, 3]), 0, 0, 0][: rnd.randint(2, 5)])))
        elif name == "ack":
            kinds = []
            if br.seen["PUBLISH1"]: kinds.append("PUBACK")
            if br.seen["PUBLISH2"]: kinds.append("PUBREC")
            if br.seen["PUBREL"]: kinds.append("PUBCOMP")
            if br.seen["SUBSCRIBE"]: kinds.append("SUBACK")
            if br.seen["UNSUBSCRIBE"]: kinds.append("UNSUBACK")
            if not kinds:
                continue
            pkts = []
            for _ in range(1 if (rnd.random() < 0.8 or opts.get("react")) else 2):
                k = rnd.choice(kinds)
                src = {"PUBACK": "PUBLISH1", "PUBREC": "PUBLISH2", "PUBCOMP": "PUBREL", "SUBACK": "SUBSCRIBE", "UNSUBACK": "UNSUBSCRIBE"}[k]
                lst = br.seen[src]
                item = lst[-1] if rnd.random() < 0.5 else rnd.choice(lst)      # recent ones more often; old ones = duplicates / late
                if k == "SUBACK":
                    # (granted lists of any length: usually one code per topic asked for, sometimes none, fewer or more)
                    ng = item[1] if rnd.random() < 0.8 else rnd.choice([0, 0, max(0, item[1] - 1), item[1] + 1])
                    pkts.append(W.suback(item[0], [rnd.choice([0, 1, 2, 128]) for _ in range(ng)]))
                else:
                    pkts.append(W.ack(k, item))
            do(w.recv(a, b"".join(pkts)))
        elif name == "stray":
            k = rnd.choice(["PUBACK", "PUBREC", "PUBCOMP", "UNSUBACK", "SUBACK", "CONNACK"])
            mid = rnd.choice([1, 2, 3, 9, 65535])
            if k == "SUBACK":
                do(w.recv(a, W.suback(mid, [0])))
            elif k == "CONNACK":
                do(w.recv(a, W.connack(0, 0)))
            else:
                do(w.recv(a, W.ack(k, mid)))
        elif name == "inbound":
            k = rnd.random()
            mid = rnd.choice(inbound_ids)
            if k < 0.15:
                # several packets in one chunk, one of them with a two-byte remaining length
                pk = []
                for _ in range(rnd.randint(2, 4)):
                    q = rnd.randint(0, 2); m2 = rnd.choice(inbound_ids)
                    pk.append(W.publish(rnd.choice(TOPICS), rnd.choice([b"", b"in", b"L" * 200, b"\x00\xfe" * 5]), q, m2, rnd.randint(0, 1) if q else 0, rnd.randint(0, 1))
                              if rnd.random() < 0.75 else W.ack("PUBREL", m2))
                do(w.recv(a, b"".join(pk)))
            elif k < 0.65:
                q = rnd.randint(0, 2)
                do(w.recv(a, W.publish(rnd.choice(TOPICS), rnd.choice([b"", b"in", b"L" * 200, b"\x00\xfe" * 5]), q, mid, rnd.randint(0, 1) if q else 0, rnd.randint(0, 1))))
            else:
                do(w.recv(a, W.ack("PUBREL", mid)))
        elif name == "pingresp":
            do(w.recv(a, W.PINGRESP))
    # drain: lose the connection if still up (half of the time), then let every timer run
    if w.t[a].phase != "lost" and rnd.random() < 0.5:
        do(w.lost(a, "done"))
    w.drain(max_fires=opts.get("drain", 6), horizon=HORIZON)


def main():
    outdir, n, seed = sys.argv[1], int(sys.argv[2]), int(sys.argv[3])
    fam = sys.argv[4] if len(sys.argv) > 4 else "mixed"
    os.makedirs(outdir, exist_ok=True)
    rnd = random.Random(seed)
    files = {}; idx = {}; lines = {}
    for p in ("pub", "sub", "both"):
        files[p] = open(os.path.join(outdir, p + ".ndjson"), "w"); idx[p] = []; lines[p] = 0
    for tid in range(1, n + 1):
        prof = rnd.choice({"subs": ["sub", "both"], "retry": ["pub", "both", "both"], "qos2": ["pub", "both"], "persist": ["pub", "both"], "wrapsess": ["pub", "both"], "wrapq2": ["pub", "both"], "inbound": ["sub", "both"]}.get(fam, ["pub", "sub", "both", "both"]))
        jit = random.Random(rnd.random()) if fam == "jitter" else None
        w = W.World(prof, len(idx[prof]) + 1, files[prof], jitter=jit, meta={"jitter": 1} if jit else None)
        opts = {"maxgen": 3, "clean": rnd.choice([0.0, 0.5, 1.0]), "wrap": fam == "wrap" or (fam == "mixed" and rnd.random() < 0.25)}
        if fam == "session":      # many losses of every kind, several generations, both session modes
            opts.update(maxgen=5, wt={"lost": 2.2, "disconnect": 0.8, "garbage": 0.5, "publish": 6, "fire": 1.5}, ka=[0, 0, 2])
        elif fam == "retry":      # long runs of expiries under varied timeouts / bandwidths
            opts.update(maxgen=2, maxfires=24, drain=10, factors=[None, 1, 2], fire_limit=20, wt={"fire": 9, "set": 2.5, "lost": 0.2, "disconnect": 0.05, "publish": 4}, ka=[0])
        elif fam == "keepalive":
            opts.update(maxgen=3, maxfires=30, drain=4, wt={"fire": 6, "idle": 4, "lost": 0.4, "publish": 1.5, "subscribe": 0.5, "unsubscribe": 0.3}, ka=[1, 2, 5, 60, 0, 65535])
        elif fam == "qos2":       # QoS 2 exchanges only, mostly persistent sessions, publishes before CONNACK, many expiries
            opts.update(maxgen=4, maxfires=20, drain=8, qos=[2, 2, 2, 1], clean=rnd.choice([0.0, 0.0, 0.3]),
                        wt={"publish": 6, "fire": 5, "ack": 9, "lost": 1.0, "set": 0.6, "subscribe": 0.1, "unsubscribe": 0.1, "disconnect": 0.1}, ka=[0])
        elif fam == "persist":    # persistent sessions only: losses at every point, window changes, held-back messages of every QoS
            opts.update(maxgen=5, clean=0.0, qos=[0, 0, 1, 2, 2], wt={"lost": 1.8, "publish": 8, "set": 1.5, "ack": 6, "fire": 1.0, "disconnect": 0.2}, ka=[0])
        elif fam == "wrapsess":   # persistent sessions with the identifier counter around the wrap
            opts.update(maxgen=4, clean=0.0, wrap=True, wt={"lost": 1.6, "publish": 8, "set": 2.0, "ack": 4, "fire": 1.0, "disconnect": 0.1}, ka=[0])
        elif fam == "inbound":    # inbound QoS 0/1/2 traffic with repeats, losses and reconnects in the middle of exchanges
            opts.update(maxgen=5, clean=rnd.choice([0.0, 0.0, 0.5]), wt={"lost": 1.6, "publish": 0.5, "subscribe": 0.5, "unsubscribe": 0.2, "inbound": 9, "ack": 1, "fire": 0.5}, ka=[0])
        elif fam == "react":      # stage 3: the application calls back into the API from Deferred callbacks and handlers
            opts.update(maxgen=4, react=True, wt={"lost": 1.2, "publish": 5, "subscribe": 2.5, "unsubscribe": 1.5, "ack": 8, "inbound": 4, "fire": 1.5, "set": 0.8}, ka=[0, 0, 2, 5])
        elif fam == "jitter":     # the library's own random retry jitter is left on (A4): only the automata judge these runs
            opts.update(maxgen=3, maxfires=16, drain=8, wt={"fire": 6, "publish": 5, "subscribe": 2, "unsubscribe": 1.5, "set": 1.5}, ka=[0, 0, 3])
        elif fam == "wrapq2":     # QoS 2 exchanges with the identifier counter around the wrap
            opts.update(maxgen=3, maxfires=12, drain=6, qos=[2, 2, 1], clean=rnd.choice([0.0, 0.5]), wrap=True,
                        wt={"publish": 8, "fire": 2, "ack": 7, "lost": 0.6, "set": 1.0, "subscribe": 0.1, "unsubscribe": 0.1, "disconnect": 0.1}, ka=[0])
        elif fam == "subs":
            opts.update(maxgen=4, wt={"subscribe": 6, "unsubscribe": 5, "publish": 1, "lost": 1.2, "set": 2}, ka=[0])
        try:
            walk(w, rnd, prof, rnd.randint(8, 45), opts)
        except Exception as e:
            import traceback; traceback.print_exc()
            sys.stderr.write("driver error in trace %d: %r\n" % (tid, e)); sys.exit(3)
        idx[prof].append([lines[prof] + 1, lines[prof] + w.n]); lines[prof] += w.n
    for p in files:
        files[p].close()
        json.dump(idx[p], open(os.path.join(outdir, p + ".idx.json"), "w"))
    print(json.dumps({p: [len(idx[p]), lines[p]] for p in files}))


if __name__ == "__main__":
    main()
