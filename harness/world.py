"""Virtual-time harness around the real twisted-mqtt classes (no source hooks, DESIGN 3.2 / 5.1).

Importing this module installs a fake global reactor *before* mqtt is imported, so that
MQTTBaseProtocol.callLater and the keepalive LoopingCall run on the harness clock.

Time unit: 1 tick = 1/1024 s (all times are dyadic rationals, so Twisted's float arithmetic on them is exact).
The harness applies stimuli and records effects; it holds no expected values.
"""
import sys, json, math
sys.path.insert(0, __import__('os').environ.get('MQTT_SRC', '/repo/src'))
from twisted.internet.main import installReactor
from twisted.internet import error
from twisted.internet.base import DelayedCall
from twisted.python import failure

TICKS = 1024


def state_name(p):
    """the protocol's state, named through the protocol's own IDLE / CONNECTING / CONNECTED / DISCONNECTING attributes
    (as the repository's tests read it), so that the class names behind them are free to change"""
    for attr, name in (("IDLE", "IdleState"), ("CONNECTING", "ConnectingState"), ("CONNECTED", "ConnectedState"), ("DISCONNECTING", "BaseState")):
        if getattr(p, attr, None) is p.state:
            return name
    return type(p.state).__name__


class VClock(object):
    """IReactorTime with explicit firing of a chosen pending call"""
    running = False

    def __init__(self):
        self.reset()

    def reset(self):
        self.now = 0            # ticks
        self.calls = []
        self.seq = 0
        self.log = None

    def seconds(self):
        return self.now / float(TICKS)

    def callLater(self, delay, f, *a, **kw):
        dt = int(math.floor(delay * TICKS + 1e-7))
        self.seq += 1
        dc = DelayedCall((self.now + dt) / float(TICKS), f, a, kw, self._cancel, self._reset, self.seconds)
        dc.vid = self.seq
        dc.at = self.now + dt
        self.calls.append(dc)
        if self.log is not None:
            self.log.append({"k": "arm", "tm": dc.vid, "delay": dt, "label": label(f, a)})
        return dc

    def _cancel(self, dc):
        self.calls.remove(dc)
        if self.log is not None:
            self.log.append({"k": "cancel", "tm": dc.vid})

    def _reset(self, dc):
        pass

    def getDelayedCalls(self):
        return list(self.calls)

    def pending(self):
        return sorted(self.calls, key=lambda c: (c.at, c.vid))

    def fire(self, dc):
        assert dc in self.calls
        assert dc.at == min(c.at for c in self.calls), "only a call with the earliest deadline may run (A3)"
        self.now = max(self.now, dc.at)
        self.calls.remove(dc)
        dc.called = 1
        dc.func(*dc.args, **dc.kw)

    def advance(self, dt):
        assert not self.calls or self.now + dt <= min(c.at for c in self.calls)
        self.now += dt

    # enough of IReactorCore for twisted.internet.task / logger
    def addSystemEventTrigger(self, *a, **k):
        pass

    def callWhenRunning(self, *a, **k):
        pass


def label(f, a):
    ids = [getattr(x, 'msgId', None) for x in a]
    name = getattr(f, '__name__', None) or type(f).__name__
    return {"fn": name, "id": next((i for i in ids if isinstance(i, int)), 0)}


clock = VClock()
installReactor(clock)

import random as _random


class _Jitter(object):
    value = 0.0
    rnd = None

    @classmethod
    def random(cls):
        return cls.rnd.random() if cls.rnd is not None else cls.value


# the retry jitter: interval.py does "random.random()"; the stdlib function is replaced before the library is imported, so
# that "from random import random" (after a refactoring) is pinned as well. The drivers use their own random.Random instances.
_random.random = _Jitter.random
import mqtt.client.interval as _IV    # noqa: E402
if getattr(_IV, "random", None) is _random:
    _IV.random = _Jitter

from mqtt.client.factory import MQTTFactory   # noqa: E402
from mqtt import v31, v311                     # noqa: E402

PROFILES = {"sub": MQTTFactory.SUBSCRIBER, "pub": MQTTFactory.PUBLISHER, "both": MQTTFactory.SUBSCRIBER | MQTTFactory.PUBLISHER}


def cps(s):
    return [ord(c) for c in s]


def exc_info(e):
    base = "ValueError" if isinstance(e, ValueError) else "TypeError" if isinstance(e, TypeError) else "other"
    return {"exc": type(e).__name__, "base": base}


class Transport(object):
    """A2: close requests are recorded; the loss is delivered later as a separate stimulus"""
    def __init__(self, world, cid):
        self.w = world; self.cid = cid
        self.phase = "open"        # open | closing | aborted | lost

    def write(self, b):
        self.w.fx.append({"k": "write", "c": self.cid, "bytes": list(bytes(b))})

    def writeSequence(self, seq):
        for b in seq:
            self.write(b)

    def loseConnection(self):
        self.w.fx.append({"k": "close", "c": self.cid, "how": "lose"})
        if self.phase == "open":
            self.phase = "closing"

    def abortConnection(self):
        self.w.fx.append({"k": "close", "c": self.cid, "how": "abort"})
        if self.phase in ("open", "closing"):
            self.phase = "aborted"

    def getPeer(self):
        return None

    def getHost(self):
        return None


class World(object):
    """one factory, any number of broker addresses, one live connection per address (A1)"""

    def __init__(self, profile, tid, out, jitter=None, meta=None):
        clock.reset()
        self.fx = []; clock.log = self.fx
        _Jitter.rnd = jitter
        self.profile = profile
        self.f = MQTTFactory(PROFILES[profile])
        self.tid = tid; self.n = 0; self.out = out
        self.p = {}; self.t = {}; self.gen = {}
        self.nd = 0; self.dfr = {}; self.mids = {}          # handle -> [deferred, status]; handle -> identifier
        self.addrs = []
        self.lines = []
        self.meta = dict(meta or {})
        self.depth = 0; self.cur = None; self.segments = 0; self.reactions = {}
        self.fired = {}; self.fire_limit = 12

    # ------------------------------------------------------------------ recording
    def emit(self, stim):
        self.n += 1
        post = {"state": {a: (state_name(self.p[a]) if a in self.p else "none") for a in self.addrs},
                "timers": [c.at for c in clock.pending()],
                "pending": sorted(h for h, v in self.dfr.items() if v[1] == "pending")}
        line = {"tid": self.tid, "n": self.n, "t": clock.now, "profile": self.profile, "stim": stim, "fx": list(self.fx), "post": post}
        if self.meta:
            line["meta"] = self.meta
        del self.fx[:]
        self.lines.append(line)
        if self.out is not None:
            self.out.write(json.dumps(line, separators=(",", ":")) + "\n")
        return line

    # ------------------------------------------------------------------ stage 3: API calls made from inside callbacks
    # A stimulus during which the application calls back into the API is recorded as several lines:
    #   <stimulus, "part": 1>  effects up to the callback      (the stimulus is not finished)
    #   <the nested call, "nested": 1>  with its own effects
    #   <"op": "cont", "of": <op>, "orig": <stimulus>>  the remaining effects  ("part": 1 again if another callback reacts)
    def run(self, stim, fn):
        if self.depth > 0:                       # a nested call: one complete line of its own
            stim = dict(stim, nested=1)
            self.depth += 1
            try:
                self.guard(fn)
            finally:
                self.depth -= 1
            return self.emit(stim)
        self.cur = stim; self.segments = 0; self.depth = 1
        try:
            self.guard(fn)
        finally:
            self.depth = 0
        if self.segments:
            return self.emit(self._cont(stim))
        return self.emit(stim)

    @staticmethod
    def _cont(stim):
        c = {"op": "cont", "of": stim["op"], "orig": stim}
        if "a" in stim:
            c["a"] = stim["a"]
        return c

    def react(self, key):
        """called by the recording callbacks right after they recorded their effect"""
        acts = self.reactions.pop(key, None)
        if not acts or self.depth != 1:
            return
        # close the current segment of the enclosing stimulus
        if self.segments == 0:
            self.emit(dict(self.cur, part=1))
        else:
            self.emit(dict(self._cont(self.cur), part=1))
        self.segments += 1
        for act in acts:
            act()

    def on_deferred(self, h, when, act):
        self.reactions.setdefault(("d", h, when), []).append(act)
        self.meta["reactive"] = 1

    def on_cb(self, a, name, act):
        self.reactions.setdefault(("cb", a, name), []).append(act)
        self.meta["reactive"] = 1

    def guard(self, fn):
        try:
            return fn()
        except Exception as e:
            self.fx.append(dict({"k": "raise"}, **exc_info(e)))
            return None

    def track(self, d):
        """attach the recording callbacks to a Deferred handed out by the library"""
        self.nd += 1; h = self.nd
        self.dfr[h] = [d, "pending"]
        mid = getattr(d, "msgId", None)
        self.mids[h] = mid if isinstance(mid, int) else -1

        def ok(v, h=h):
            self.dfr[h][1] = "ok"
            self.fx.append({"k": "fire", "d": h, "ok": 1, "val": enc_val(v)})
            self.react(("d", h, "ok"))
            return "result-of-the-application-callback"     # applications are free to return something: the Deferred is theirs

        def ko(f, h=h):
            self.dfr[h][1] = "fail"
            self.fx.append(dict({"k": "fire", "d": h, "ok": 0}, **exc_info(f.value)))
            self.react(("d", h, "fail"))
        d.addCallbacks(ok, ko)
        self.fx.append({"k": "ret", "d": h, "mid": mid if isinstance(mid, int) else -1})
        return h

    # ------------------------------------------------------------------ application callbacks (A5: never raise)
    def _on_publish(self, a):
        def app_onPublish(topic, payload, qos, dup, retain, msgId):
            self.fx.append({"k": "cb", "a": a, "name": "onPublish", "topic": cps(topic) if isinstance(topic, str) else [-1],
                            "payload": list(payload) if isinstance(payload, (bytes, bytearray)) else [-1],
                            "qos": int(qos), "dup": 1 if dup else 0, "retain": 1 if retain else 0,
                            "id": msgId if isinstance(msgId, int) else -1})
            self.react(("cb", a, "onPublish"))
        return app_onPublish

    def _on_disc(self, a, g):
        def app_onDisconnection(reason):
            self.fx.append({"k": "cb", "a": a, "g": g, "name": "onDisconnection", "reason": type(reason.value).__name__})
            self.react(("cb", a, "onDisconnection"))
        return app_onDisconnection

    def _on_made(self, a):
        def app_onMqttConnectionMade():
            self.fx.append({"k": "cb", "a": a, "name": "onMqttConnectionMade"})
            self.react(("cb", a, "onMqttConnectionMade"))
        return app_onMqttConnectionMade

    # ------------------------------------------------------------------ stimuli
    def build(self, a):
        if a not in self.addrs:
            self.addrs.append(a)
        self.gen[a] = self.gen.get(a, 0) + 1
        def go():
            self.p[a] = self.f.buildProtocol(a)
            self.t[a] = Transport(self, [a, self.gen[a]])
            self.p[a].makeConnection(self.t[a])
        self.guard(go)
        return self.emit({"op": "build", "a": a, "g": self.gen[a]})

    def set(self, a, what, v, v2=None):
        p = self.p[a]
        def go():
            if what == "window":
                p.setWindowSize(v)
            elif what == "timeout":
                p.setTimeout(v)
            elif what == "bandwith":
                p.setBandwith(v, v2) if v2 is not None else p.setBandwith(v)
            elif what == "onPublish":
                p.onPublish = self._on_publish(a) if v else None
            elif what == "onDisconnection":
                p.onDisconnection = self._on_disc(a, self.gen[a]) if v else None
            elif what == "onMqttConnectionMade":
                p.onMqttConnectionMade = self._on_made(a) if v else None
        self.guard(go)
        return self.emit({"op": "set", "a": a, "what": what, "v": jval(v), "v2": jval(v2)})

    def connect(self, a, clientId="c", keepalive=0, cleanStart=True, version=4, **kw):
        ver = v31 if version == 3 else v311 if version == 4 else version
        def go():
            d = self.p[a].connect(clientId, keepalive=keepalive, cleanStart=cleanStart, version=ver, **kw)
            self.track(d)
        stim = {"op": "connect", "a": a, "cid": jval(clientId), "ka": jval(keepalive), "clean": 1 if cleanStart else 0,
                "ver": version if version in (3, 4) else 0,
                "wtopic": jval(kw.get("willTopic")), "wmsg": jval(kw.get("willMessage")), "wqos": jval(kw.get("willQoS", 0)),
                "wretain": 1 if kw.get("willRetain") else 0, "uname": jval(kw.get("username")), "pwd": jval(kw.get("password"))}
        return self.run(stim, go)

    def disconnect(self, a):
        return self.run({"op": "disconnect", "a": a}, lambda: self.p[a].disconnect())

    # The objects handed to the library are the application's: the harness passes its own copy of a list / bytearray
    # argument and overwrites it as soon as the call has returned (an application that reuses its buffers).  What the
    # library does later must not depend on it.
    def publish(self, a, topic, msg, qos=0, retain=False):
        own = bytearray(msg) if isinstance(msg, bytearray) else msg
        def call():
            h = self.track(self.p[a].publish(topic, own, qos=qos, retain=retain))
            if isinstance(own, bytearray):
                own[:] = b"overwritten-after-the-call"
            return h
        return self.run({"op": "publish", "a": a, "topic": jval(topic), "payload": jpayload(msg), "qos": jval(qos), "retain": 1 if retain else 0}, call)

    def subscribe(self, a, topics, qos=0):
        own = list(topics) if isinstance(topics, list) else topics
        def call():
            h = self.track(self.p[a].subscribe(own, qos))
            if isinstance(own, list):
                own[:] = [("overwritten/after/the/call", 0)]
            return h
        return self.run({"op": "subscribe", "a": a, "arg": jtopics(topics), "qos": jval(qos)}, call)

    def unsubscribe(self, a, topics):
        own = list(topics) if isinstance(topics, list) else topics
        def call():
            h = self.track(self.p[a].unsubscribe(own))
            if isinstance(own, list):
                own[:] = ["overwritten/after/the/call"]
            return h
        return self.run({"op": "unsubscribe", "a": a, "arg": jtopics(topics)}, call)

    def recv(self, a, b):
        return self.run({"op": "recv", "a": a, "g": self.gen[a], "bytes": list(b)}, lambda: self.p[a].dataReceived(bytes(b)))

    def fire(self, dc):
        """run pending call dc (it must have the earliest deadline); time jumps to its deadline"""
        lab = label(dc.func, dc.args)
        self.fired[(lab["fn"], lab["id"])] = self.fired.get((lab["fn"], lab["id"]), 0) + 1
        return self.run({"op": "fire", "tm": dc.vid}, lambda: clock.fire(dc))

    def pending_mids(self):
        """identifiers of the requests whose Deferred has not fired (as reported by the library on the Deferred)"""
        return sorted({self.mids[h] for h, (d, st) in self.dfr.items() if st == "pending" and self.mids.get(h, -1) > 0})

    def pokeid(self, n):
        """test-only placement of the factory's identifier counter (C17 names this placement)"""
        if isinstance(getattr(self.f, "id", None), int):
            self.f.id = n
        else:                       # the counter is not where it used to be: reach the placement through makeId() alone
            for _ in range(65536):
                last = self.f.makeId()
                if last == n:
                    break
            n = last
        return self.emit({"op": "pokeid", "v": n})

    def idle(self, dt):
        clock.advance(dt)
        return self.emit({"op": "idle", "dt": dt})

    def lost(self, a, reason="done"):
        self.t[a].phase = "lost"
        exc = error.ConnectionDone() if reason == "done" else error.ConnectionLost()
        return self.run({"op": "lost", "a": a, "g": self.gen[a], "reason": type(exc).__name__}, lambda: self.p[a].connectionLost(failure.Failure(exc)))

    # ------------------------------------------------------------------ helpers for drivers (no judgement)
    def due(self):
        """pending calls with the earliest deadline"""
        ps = clock.pending()
        return [c for c in ps if c.at == ps[0].at] if ps else []

    def in_range(self, dc):
        """driver guard (no judgement): TLC computes with 32-bit integers and the PUBLISH retry law needs factor^n * size,
        so one and the same timer chain (callback name + packet id) is fired at most `fire_limit` times (12: enough for
        factor 3 and packets up to 1 KB; the retry family uses factors <= 2 and raises the limit)"""
        lab = label(dc.func, dc.args)
        return self.fired.get((lab["fn"], lab["id"]), 0) < self.fire_limit

    def drain(self, max_fires=200, horizon=None):
        """fire timers in deadline order until none is left or the budget is used up"""
        k = 0
        while clock.calls and k < max_fires:
            c = clock.pending()[0]
            if (horizon is not None and c.at > horizon) or not self.in_range(c):
                break
            self.fire(c); k += 1
        return k


def jval(v):
    """JSON rendering of an API argument: integers and texts as themselves, everything else by type name"""
    if isinstance(v, bool):
        return {"ty": "bool", "v": 1 if v else 0}
    if isinstance(v, int):
        return {"ty": "int", "v": v} if -2**31 < v < 2**31 else {"ty": "bigint"}
    if isinstance(v, str):
        return {"ty": "str", "v": cps(v)}
    if v is None:
        return {"ty": "none"}
    return {"ty": type(v).__name__}


def jpayload(m):
    if isinstance(m, str):
        return {"ty": "str", "v": cps(m)}
    if isinstance(m, bytearray):
        return {"ty": "bytes", "v": list(m)}
    return {"ty": ("py" + type(m).__name__) if m is not None else "none"}


def jtopics(t):
    def item(x):
        if isinstance(x, tuple) and len(x) == 2 and isinstance(x[0], str) and isinstance(x[1], int) and not isinstance(x[1], bool):
            return {"ty": "pair", "t": cps(x[0]), "q": x[1]}
        if isinstance(x, str):
            return {"ty": "str", "v": cps(x)}
        return {"ty": type(x).__name__ if x is not None else "none"}
    if isinstance(t, list):
        return {"ty": "list", "items": [item(x) for x in t]}
    return item(t)


def enc_val(v):
    if v is None:
        return {"ty": "none"}
    if isinstance(v, bool):
        return {"ty": "bool", "v": 1 if v else 0}
    if isinstance(v, int):
        return {"ty": "int", "v": v}
    if isinstance(v, list):
        try:
            return {"ty": "granted", "v": [[int(q), 1 if f else 0] for (q, f) in v]}
        except Exception:
            return {"ty": "list"}
    return {"ty": type(v).__name__}


# ------------------------------------------------------------------ broker-side packet builder (driver utility, not an oracle)
def enc_len(n):
    o = bytearray()
    while True:
        d = n % 128; n //= 128
        o.append(d | (128 if n else 0))
        if not n:
            return bytes(o)


def frame(first, body=b""):
    return bytes([first]) + enc_len(len(body)) + bytes(body)


def i16(n):
    return bytes([(n >> 8) & 255, n & 255])


def mstr(s):
    e = s.encode("utf-8"); return i16(len(e)) + e


def connack(code=0, session=0):
    return frame(0x20, bytes([session, code]))


def ack(kind, mid):
    first = {"PUBACK": 0x40, "PUBREC": 0x50, "PUBREL": 0x62, "PUBCOMP": 0x70, "UNSUBACK": 0xB0}[kind]
    return frame(first, i16(mid))


def suback(mid, grants):
    return frame(0x90, i16(mid) + bytes(grants))


def publish(topic, payload, qos=0, mid=0, dup=0, retain=0):
    return frame(0x30 | dup << 3 | qos << 1 | retain, mstr(topic) + (i16(mid) if qos else b"") + bytes(payload))


PINGRESP = frame(0xD0)
