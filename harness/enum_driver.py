"""Enumerating drivers (no judgement here; everything is judged by the TLA+ automata):

  handshake : 3 profiles x versions x keepalive x CONNACK return codes x session flag, with operations, stray packets,
              timeouts, duplicate CONNACKs and losses placed at every point                      (C04, C14, C16)
  inject    : malformed / unexpected / mutated byte strings injected in every protocol state of every profile with
              requests pending                                                                     (C16, C14)
  args      : boundary and ill-typed arguments of every API entry point in every state that otherwise allows the
              call; every refused call is paired with a twin history WITHOUT the call (meta.ref)   (C20)
  refused   : a connection attempt that ends without a session, a second connect() (valid / invalid, clean / persistent)
              on the same protocol, loss / acceptance / refusal, then a persistent resumption      (C11, C12, C04, C13)
  react     : API calls made from inside Deferred callbacks and handlers (stage 3)

usage: enum_driver.py <outdir> <family> <tier> <seed>  -> <outdir>/{pub,sub,both}.ndjson + .idx.json
"""
import sys, json, random, os
import world as W

A = "A"


class Out(object):
    def __init__(self, outdir):
        os.makedirs(outdir, exist_ok=True)
        self.dir = outdir
        self.f = {p: open(os.path.join(outdir, p + ".ndjson"), "w") for p in ("pub", "sub", "both")}
        self.idx = {p: [] for p in self.f}; self.lines = {p: 0 for p in self.f}

    def world(self, prof, meta=None):
        w = W.World(prof, len(self.idx[prof]) + 1, self.f[prof], meta=meta)
        w._prof = prof
        return w

    def done(self, w):
        p = w._prof
        self.idx[p].append([self.lines[p] + 1, self.lines[p] + w.n]); self.lines[p] += w.n
        return len(self.idx[p])

    def close(self):
        for p, f in self.f.items():
            f.close(); json.dump(self.idx[p], open(os.path.join(self.dir, p + ".idx.json"), "w"))
        print(json.dumps({p: [len(self.idx[p]), self.lines[p]] for p in self.f}))


def drain(w, k=8):
    w.drain(max_fires=k, horizon=2 ** 28)


# ------------------------------------------------------------------------------------------------ handshake
def fam_handshake(out, tier, rnd):
    codes = list(range(256)) if tier == "thorough" else [0, 1, 2, 3, 4, 5, 6, 7, 127, 128, 254, 255]
    for prof in ("pub", "sub", "both"):
        for ver in (3, 4):
            for ka in ((0, 1, 5) if tier == "thorough" else (0, 2)):
                for code in codes:
                    for sess in (0, 1):
                        if tier == "quick" and sess == 1 and code not in (0, 1, 6):
                            continue
                        w = out.world(prof)
                        w.build(A); w.set(A, "onDisconnection", 1); w.set(A, "onPublish", 1)
                        w.connect(A, keepalive=ka, cleanStart=bool((code + sess) % 2), version=ver)
                        if rnd.random() < 0.5:
                            w.publish(A, "t", "early", rnd.choice([0, 1, 2]))
                        w.recv(A, W.connack(code, sess))
                        # every operation and a few packets in the state reached
                        w.publish(A, "t", "x", 1)
                        w.subscribe(A, "s", 1)
                        w.unsubscribe(A, "s")
                        w.recv(A, W.connack(0, 0))            # duplicate / stray CONNACK
                        w.recv(A, W.ack("PUBACK", 1))
                        w.connect(A, keepalive=ka, cleanStart=True, version=ver)
                        if rnd.random() < 0.5:
                            w.recv(A, W.connack(0, 0))
                        if rnd.random() < 0.3:
                            w.disconnect(A)
                        if w.t[A].phase != "lost" and rnd.random() < 0.7:
                            w.lost(A, rnd.choice(["done", "lost"]))
                        drain(w)
                        out.done(w)
    # a loss / the timeout placed at every point of build, connect, [publish], CONNACK, traffic
    steps = ["connect", "publish", "connack", "publish2", "puback", "subscribe", "dupconnack"]
    for prof in ("pub", "sub", "both"):
        for clean in (True, False):
            for ka in (0, 2, 2000):
                for cut in range(len(steps) + 1):
                    for ending in ("lost", "timeout", "lost-then-timeout"):
                        w = out.world(prof)
                        w.build(A); w.set(A, "onDisconnection", 1)
                        for i, st in enumerate(steps):
                            if i == cut:
                                break
                            if st == "connect":
                                w.connect(A, keepalive=ka, cleanStart=clean)
                            elif st in ("publish", "publish2"):
                                w.publish(A, "t", "m", 1)
                            elif st == "connack":
                                w.recv(A, W.connack(0, 0))
                            elif st == "puback":
                                w.recv(A, W.ack("PUBACK", 1))
                            elif st == "subscribe":
                                w.subscribe(A, [("a", 1)])
                            elif st == "dupconnack":
                                w.recv(A, W.connack(0, 1))
                        if ending == "lost":
                            w.lost(A, "lost")
                        elif ending == "timeout":
                            if w.due():
                                w.fire(w.due()[0])
                            w.lost(A, "done")
                        else:
                            w.lost(A, "done")
                        drain(w)
                        out.done(w)



# ------------------------------------------------------------------------------------------------ second attempt
def fam_refused(out, tier, rnd):
    """a connection attempt that ends without a session (refused CONNACK / timeout) with requests made while connecting,
    followed by a second connect() on the same protocol - valid or refused for its arguments, clean or persistent - and
    then by the loss, another refusal or an accepted CONNACK; finally a new protocol resumes persistently, which shows
    whatever was left behind                                                                  (C11, C12, C04, C13)"""
    codes = (1, 2, 3, 4, 5) if tier == "thorough" else (1, 5)
    bad = [dict(keepalive=65536), dict(clientId="x" * 24, version=3), dict(willTopic="w"), dict(keepalive=None)]
    if tier == "quick":
        bad = bad[:2]
    seconds = [None] + [("ok", c, None) for c in (True, False)] + [("bad", c, b) for c in (True, False) for b in bad]
    for prof in ("pub", "both"):
        for clean1 in (True, False):
            for early in ([], [1], [2, 1, 0]):
                for code in codes + ("timeout",):
                    if tier == "quick" and code == "timeout" and early != [1]:
                        continue
                    for second in seconds:
                        endings = ("lost",) if second is None or second[0] == "bad" else ("lost", "accepted", "refused")
                        for ending in endings:
                            ka1, ka2 = rnd.choice([(0, 0), (3, 0), (0, 3), (3, 5)])      # the two attempts need not ask for the same keepalive
                            w = out.world(prof)
                            w.build(A); w.set(A, "onDisconnection", 1); w.set(A, "window", 2)
                            w.connect(A, keepalive=ka1, cleanStart=clean1, version=4)
                            for q in early:
                                w.publish(A, "t", "early%d" % q, q)
                            if code == "timeout":
                                # the connect timeout is the last-armed of the timers due (retry timers of early publishes come first)
                                while w.t[A].phase == "open" and W.state_name(w.p[A]) == "ConnectingState" and w.due() and w.in_range(w.due()[0]):
                                    w.fire(w.due()[0])
                            else:
                                w.recv(A, W.connack(code, 0))
                            if second is not None and w.t[A].phase == "open":
                                kw = dict(keepalive=ka2, version=4)
                                if second[0] == "bad":
                                    kw.update(second[2])
                                w.connect(A, cleanStart=second[1], **kw)
                                if second[0] == "ok":
                                    w.publish(A, "t", "second", 1)
                            if w.t[A].phase not in ("open", "closing"):      # A2: nothing arrives after abortConnection()
                                pass
                            elif ending == "accepted":
                                w.recv(A, W.connack(0, 0 if (second and second[1]) else 1))
                                w.publish(A, "t", "after", 1)
                                for _ in range(3):
                                    if w.due() and w.in_range(w.due()[0]) and w.t[A].phase == "open":
                                        w.fire(w.due()[0])
                            elif ending == "refused":
                                w.recv(A, W.connack(4, 0))
                            if w.t[A].phase != "lost":
                                w.lost(A, rnd.choice(["done", "lost"]))
                            drain(w, 3)
                            # what is left behind: resumed by a persistent connection of a new protocol
                            w.build(A); w.set(A, "onDisconnection", 1)
                            w.connect(A, keepalive=0, cleanStart=False, version=4); w.recv(A, W.connack(0, 1))
                            w.publish(A, "t", "fresh", 1)
                            w.lost(A, "done")
                            drain(w, 3)
                            out.done(w)

# ------------------------------------------------------------------------------------------------ inject
SITUATIONS = ["idle", "connecting", "connected", "pending-q1", "pending-q2", "pending-rel", "pending-sub", "pending-unsub", "held-inbound", "keepalive"]


def prepare(w, prof, sit, clean=True):
    w.build(A); w.set(A, "onDisconnection", 1); w.set(A, "onPublish", 1); w.set(A, "window", 3)
    if sit == "idle":
        return
    w.connect(A, keepalive=5 if sit == "keepalive" else 0, cleanStart=clean)
    if sit == "connecting":
        if prof != "sub":
            w.publish(A, "t", "early", 1)
        return
    w.recv(A, W.connack(0, 0))
    pubok = prof != "sub"; subok = prof != "pub"
    if sit in ("pending-q1",) and pubok:
        w.publish(A, "t", "m1", 1)
    if sit in ("pending-q2", "pending-rel") and pubok:
        w.publish(A, "t", "m2", 2)
        if sit == "pending-rel":
            w.recv(A, W.ack("PUBREC", 1))
    if sit == "pending-sub" and subok:
        w.subscribe(A, [("a/b", 1), ("c", 2)])
    if sit == "pending-unsub" and subok:
        w.unsubscribe(A, ["a/b"])
    if sit == "held-inbound" and subok:
        w.recv(A, W.publish("in", b"held", 2, 9))


def corpus():
    """valid broker packets (the situations above make several of them meaningful)"""
    return [W.connack(0, 0), W.connack(5, 0), W.PINGRESP, W.ack("PUBACK", 1), W.ack("PUBREC", 1), W.ack("PUBCOMP", 1), W.ack("PUBREL", 9),
            W.suback(1, [1, 2]), W.ack("UNSUBACK", 2), W.publish("a", b"p", 0), W.publish("é/x", b"pay", 1, 3), W.publish("b", b"", 2, 4, 1, 1)]


def mutations(p, rnd, tier):
    out = []
    for i in range(len(p)):
        for v in (0x00, 0xFF, p[i] ^ 1, p[i] ^ 0x80):
            if v != p[i]:
                out.append(p[:i] + bytes([v]) + p[i + 1:])
    for n in range(1, len(p)):
        out.append(p[:n])                       # truncated (stays in the buffer unless the length field says otherwise)
    out.append(p + b"\x00"); out.append(p + b"\xff\xff")
    if p[1] < 0x80:
        out.append(bytes([p[0], p[1] | 0x80, 0x00]) + p[2:])      # the same packet with its remaining length on two bytes
    # truncation with a consistent remaining length
    for n in range(2, len(p)):
        body = p[2:n]
        out.append(bytes([p[0], len(body)]) + body)
    if tier == "quick":
        rnd.shuffle(out); out = out[:14]
    return out


def garbage(tier, rnd):
    alpha = [0x00, 0x01, 0x02, 0x03, 0x7F, 0x80, 0xFF]
    out = []
    for first in range(256):
        out.append(bytes([first, 0]))
        for b in (alpha if tier == "thorough" else [0x00, 0x02, 0xFF]):
            out.append(bytes([first, 1, b]))
        if first & 0x0F == 0 or (tier == "thorough" and first & 0x0F in (2, 8, 10, 15)):
            for b1 in alpha:
                for b2 in (alpha if tier == "thorough" else [0x00, 0x01, 0xFF]):
                    out.append(bytes([first, 2, b1, b2]))
    # invalid UTF-8 topics, over-long topic length, QoS 3
    for q, first in ((0, 0x30), (1, 0x32), (3, 0x36)):
        for t in (b"\xc0\x80", b"\xed\xa0\x80", b"\xff", b"\xe2\x82", b"\xf4\x90\x80\x80"):
            body = W.i16(len(t)) + t + (W.i16(5) if q else b"") + b"x"
            out.append(W.frame(first, body))
    out.append(W.frame(0x30, W.i16(9) + b"ab"))
    out.append(W.frame(0x30, W.i16(1)))
    out.append(bytes([0x30, 0x80, 0x80, 0x80, 0x80, 0x01, 0, 0]))      # five-byte remaining length
    out.append(W.frame(0x90, W.i16(1)))                                  # SUBACK without return codes
    out.append(W.frame(0x20, b"\x00"))                                   # CONNACK one byte short
    for _ in range(200 if tier == "quick" else 3000):
        out.append(bytes(rnd.randrange(256) for _ in range(rnd.randint(1, 9))))
    return out


def leaves_partial(b):
    """driver-side framing: do these bytes (delivered to an empty buffer) end in the middle of a packet?"""
    i = 0
    while i < len(b):
        if len(b) - i < 2:
            return True
        j = i + 1; n = 0; mult = 1
        while True:
            if j >= len(b):
                return True
            n += (b[j] & 0x7F) * mult; mult *= 128
            if not b[j] & 0x80:
                break
            j += 1
        if len(b) - (j + 1) < n:
            return True
        i = j + 1 + n
    return False


def fam_inject(out, tier, rnd):
    inj = garbage(tier, rnd)
    for p in corpus():
        inj += mutations(p, rnd, tier)
    inj += corpus()
    rnd.shuffle(inj)
    combos = [(prof, sit) for prof in ("pub", "sub", "both") for sit in SITUATIONS]
    k = 0
    # every (profile, situation) gets a different slice of the injections: 1/14 of them (quick), 1/3 (thorough)
    per = max(1, len(inj) // (4 if tier == "thorough" else 14))
    # delivered in every (profile, situation): PUBLISH with both QoS bits set but an otherwise valid body, each followed by the
    # PUBREL that would release it if it had been taken for QoS 2; acknowledgements of every type for an identifier in use
    always = []
    for first, mid in ((0x36, 21), (0x37, 22), (0x3E, 23), (0x3F, 1)):
        always += [W.frame(first, W.mstr("q3/t") + W.i16(mid) + b"q3"), W.ack("PUBREL", mid)]
    # ... and the refusing / accepting CONNACK and the acknowledgements with their remaining length on two bytes
    for p in (W.connack(5, 0), W.connack(0, 0), W.ack("PUBACK", 1), W.suback(1, [1, 2])):
        always.append(bytes([p[0], p[1] | 0x80, 0x00]) + p[2:])
    # ... and acknowledgements cut after the first byte of their identifier (the byte that is left equals the identifier of a
    # request that the prepared situations have pending, or of the inbound message they hold)
    for first, lo in ((0x40, 1), (0x50, 1), (0x70, 1), (0x90, 1), (0xB0, 2), (0xB0, 1), (0x62, 9), (0x40, 2), (0x50, 2)):
        always.append(bytes([first, 1, lo]))
    # ... a well-formed chunk of three packets, the first one with a two-byte remaining length (what is delivered and
    # acknowledged must be exactly these packets)
    always.append(W.publish("big/t", b"B" * 200, 1, 31) + W.publish("a", b"x", 0) + W.publish("small/t", b"@\x02\x00\x01", 1, 32))
    # ... and packets of types that only a client sends, or that do not exist
    always += [bytes([0xC0, 0]), bytes([0xE0, 0]), bytes([0x00, 0]), bytes([0xF0, 0]), bytes([0x82, 2, 0, 1]), bytes([0xA2, 2, 0, 1]), bytes([0x10, 0])]
    for prof, sit in combos:
        todo = [inj[(k * 7919 + j) % len(inj)] for j in range(per)] + always
        k += 1
        i = 0
        while i < len(todo):
            w = out.world(prof)
            prepare(w, prof, sit, clean=(i % 3 != 0))
            n = 0
            while i < len(todo) and w.t[A].phase in ("open",) and n < 12:
                w.recv(A, todo[i]); i += 1; n += 1
                if leaves_partial(todo[i - 1]):         # a partial packet is waiting: start afresh so that injections stay independent
                    break
            if (sit == "keepalive" or rnd.random() < 0.5) and w.due():
                w.fire(w.due()[0])                      # (with a keepalive: a tick between the abort and the report of the loss)
                if sit == "keepalive" and w.due() and w.in_range(w.due()[0]):
                    w.fire(w.due()[0])
            w.lost(A, "lost" if w.t[A].phase == "aborted" else "done")
            drain(w, 4)
            out.done(w)



# ------------------------------------------------------------------------------------------------ every packet in every state
def fam_pktstate(out, tier, rnd):
    """every valid broker packet (identifiers matching the requests that are pending) delivered in every prepared situation
    of every profile, one per history, followed by a probe of the state reached                         (C14, C16)"""
    pkts = corpus() + [W.suback(1, [0x80]), W.ack("PUBREC", 2), W.ack("PUBCOMP", 2), W.publish("x", b"y", 2, 9), W.ack("PUBREL", 1)]
    for prof in ("pub", "sub", "both"):
        for sit in SITUATIONS + ["connecting-2"]:
            for clean in (True, False):
                if tier == "quick" and not clean and sit not in ("connecting", "connecting-2", "pending-rel", "held-inbound"):
                    continue
                for pk in pkts:
                    w = out.world(prof)
                    if sit == "connecting-2":          # two publishes made while connecting, window 1: one on the wire, one held back
                        w.build(A); w.set(A, "onDisconnection", 1); w.set(A, "onPublish", 1)
                        w.connect(A, keepalive=0, cleanStart=clean)
                        if prof != "sub":
                            w.publish(A, "t", "early1", 1); w.publish(A, "t", "early2", 1)
                    else:
                        prepare(w, prof, sit, clean=clean)
                    w.recv(A, pk)
                    st = W.state_name(w.p[A])
                    if st == "ConnectingState" and w.t[A].phase == "open":
                        w.recv(A, W.connack(rnd.choice([0, 0, 5]), 0))
                    if W.state_name(w.p[A]) == "ConnectedState" and w.t[A].phase == "open":
                        if prof != "sub":
                            w.publish(A, "t", "probe", 1)
                        else:
                            w.subscribe(A, "probe/s", 1)
                    if w.t[A].phase != "lost":
                        w.lost(A, "done")
                    drain(w, 3)
                    out.done(w)

# ------------------------------------------------------------------------------------------------ args
LONG = "a" * 65535
TOOLONG = "a" * 65536
ULONG = "\u00e9" * 32767 + "a"        # 65535 bytes of UTF-8 in 32768 characters: the longest representable
UTOOLONG = "\u00e9" * 32768           # 65536 bytes in 32768 characters: too long although its character count is not


def arg_vectors():
    V = []
    for v in (0, 1, 2, 16, 17, -1, None, "3"):
        V.append(("set", ("window", v, None)))
    for v in (0, 1, 7, 1024, 1025, -5, None):
        V.append(("set", ("timeout", v, None)))
    for v in ((0, 2), (-1, 2), (100, 0), (100, -1), (1, 1), (1000000, 3), (None, 2), (5000, None)):
        V.append(("set", ("bandwith", v[0], v[1])))
    base = dict(clientId="cid", keepalive=0, cleanStart=True, version=4)
    for ka in (-1, 0, 1, 65535, 65536, None):
        V.append(("connect", dict(base, keepalive=ka)))
    for wq in (-1, 0, 2, 3, None):
        V.append(("connect", dict(base, willTopic="w", willMessage="m", willQoS=wq)))
    V.append(("connect", dict(base, version=3, clientId="x" * 23)))
    V.append(("connect", dict(base, version=3, clientId="x" * 24)))
    V.append(("connect", dict(base, version=4, clientId="x" * 24)))
    V.append(("connect", dict(base, version={"level": 5, "tag": "MQTT"})))
    V.append(("connect", dict(base, willTopic="w")))
    V.append(("connect", dict(base, willMessage="m")))
    V.append(("connect", dict(base, password="pw")))
    V.append(("connect", dict(base, username="u", password="pw")))
    for fld in ("clientId", "willTopic", "willMessage", "username", "password"):
        for s in (LONG, TOOLONG, ULONG, UTOOLONG):
            kw = dict(base, username="u") if fld == "password" else dict(base)
            if fld.startswith("will"):
                kw.update(willTopic="w", willMessage="m")
            kw[fld] = s
            V.append(("connect", kw))
    V.append(("connect", dict(base, clientId=None)))
    # empty strings are strings: an empty password still needs a user name, an empty will topic still needs a message ...
    V.append(("connect", dict(base, password="")))
    V.append(("connect", dict(base, username="", password="")))
    V.append(("connect", dict(base, username="u", password="")))
    V.append(("connect", dict(base, username="")))
    V.append(("connect", dict(base, willTopic="", willMessage="")))
    V.append(("connect", dict(base, willTopic="w", willMessage="")))
    V.append(("connect", dict(base, willTopic="")))
    V.append(("connect", dict(base, willMessage="")))
    # will options without a will (they are simply not used), and the 3.1 client id limit, which counts characters
    V.append(("connect", dict(base, willQoS=1)))
    V.append(("connect", dict(base, willQoS=2, willRetain=True)))
    V.append(("connect", dict(base, willRetain=True, username="u")))
    V.append(("connect", dict(base, willQoS=3)))
    V.append(("connect", dict(base, version=3, clientId="\u00e9" * 23)))
    V.append(("connect", dict(base, version=3, clientId="estaci\u00f3n-meteorol\u00f3gica1")))
    V.append(("connect", dict(base, version=3, clientId="\u00e9" * 24)))
    V.append(("connect", dict(base, version=4, clientId="\u00e9" * 24)))
    V.append(("connect", dict(base, clientId="")))
    V.append(("connect", dict(base, clientId="", cleanStart=False)))
    for q in (-1, 0, 1, 2, 3, None):
        V.append(("publish", ("t", "m", q)))
    for pl in ("", "text", bytearray(b"\x00\x01"), 5, None, 1.5, b"bytes", ["l"]):
        V.append(("publish", ("t", pl, 1)))
        V.append(("publish", ("t", pl, 0)))
    for tp in (LONG, TOOLONG, ULONG, UTOOLONG, 5, None, ""):
        V.append(("publish", (tp, "m", 1)))
    for q in (-1, 0, 2, 3):
        V.append(("subscribe", ("a", q)))
    for arg in (("a", 1), ("a",), ("a", 3), [("a", 0), ("b", 2)], [("a", 1), ("b", 5)], [], ["a"], 5, None, {"a": 1}, [(LONG, 1)], [(TOOLONG, 1)], TOOLONG, [("a", 0), (UTOOLONG, 1)], [(ULONG, 2)]):
        V.append(("subscribe", (arg, 0)))
    for arg in ("a", ["a", "b"], 5, None, [5], [LONG], [TOOLONG], TOOLONG, ("a",), [UTOOLONG], ["a", ULONG]):
        V.append(("unsubscribe", (arg,)))
    return V


def apply_call(w, op, args):
    if op == "set":
        w.set(A, args[0], args[1], args[2])
    elif op == "connect":
        kw = dict(args); w.connect(A, **kw)
    elif op == "publish":
        w.publish(A, args[0], args[1], args[2])
    elif op == "subscribe":
        w.subscribe(A, args[0], args[1])
    elif op == "unsubscribe":
        w.unsubscribe(A, args[0])


def history(w, prof, state, variant):
    """prefix: reach the state, with some requests pending (variant picks how many)"""
    w.build(A); w.set(A, "onDisconnection", 1); w.set(A, "onPublish", 1); w.set(A, "window", 2)
    if state == "idle":
        return
    if state == "inherited":
        # idle, on a new protocol, with the unfinished requests of a lost persistent connection waiting in the factory
        w.connect(A, keepalive=0, cleanStart=False, version=4 if variant < 2 else 3); w.recv(A, W.connack(0, 0))
        if prof != "sub":
            w.publish(A, "t", "i1", 1); w.publish(A, "t", "i2", 2); w.publish(A, "t", "iheld", 1)
        if prof != "pub":
            w.subscribe(A, "s/i", 1)
        w.lost(A, "lost"); drain(w, 2)
        w.build(A); w.set(A, "onDisconnection", 1); w.set(A, "onPublish", 1); w.set(A, "window", 2)
        return
    w.connect(A, keepalive=0, cleanStart=bool(variant % 2), version=4 if variant < 2 else 3)
    if state == "connecting":
        if prof != "sub" and variant >= 1:
            w.publish(A, "t", "p0", 1)
        return
    w.recv(A, W.connack(0, 0))
    if variant >= 1 and prof != "sub":
        w.publish(A, "t", "p1", 1); w.publish(A, "t", "p2", 2)
    if variant >= 2 and prof != "sub":
        w.publish(A, "t", "held", 1)
    if variant >= 1 and prof != "pub":
        w.subscribe(A, "s/1", 1)


def suffix(w, prof):
    """probe: observable consequences of whatever state the client is in"""
    st = W.state_name(w.p[A])
    if st == "IdleState":
        w.connect(A, keepalive=0, cleanStart=False)
        st = W.state_name(w.p[A])
    if st == "ConnectingState":
        if prof != "sub":
            w.publish(A, "t", "probe" * 40, 1)
        w.recv(A, W.connack(0, 0))
    if prof != "sub":
        w.publish(A, "t", "probe" * 40, 1)
        w.publish(A, "t", "q0", 0)
    if prof != "pub":
        w.subscribe(A, "probe/s", 1)
        w.unsubscribe(A, "probe/u")
    for _ in range(3):
        if w.due():
            w.fire(w.due()[0])
    # acknowledge whatever QoS 1 PUBLISH is on the wire (identifiers taken from the bytes written, so that a consumed
    # identifier does not change which requests get acknowledged)
    ids = []
    for ln in w.lines:
        for e in ln["fx"]:
            b = e.get("bytes")
            if e["k"] == "write" and b and b[0] >> 4 == 3 and (b[0] >> 1) & 3 == 1:
                i = 1
                while b[i] & 0x80:
                    i += 1
                i += 1
                tl = b[i] * 256 + b[i + 1]
                mid = b[i + 2 + tl] * 256 + b[i + 3 + tl]
                if mid not in ids:
                    ids.append(mid)
    if ids and w.t[A].phase == "open":
        w.recv(A, b"".join(W.ack("PUBACK", i) for i in ids))
    w.lost(A, "done")
    drain(w, 4)
    # what is left behind: resumed by a persistent connection of a new protocol
    w.build(A); w.set(A, "onDisconnection", 1)
    w.connect(A, keepalive=0, cleanStart=False); w.recv(A, W.connack(0, 1))
    w.lost(A, "done")
    drain(w, 3)


def fam_args(out, tier, rnd):
    V = arg_vectors()
    for prof in ("pub", "sub", "both"):
        for state in ("idle", "inherited", "connecting", "connected"):
            for variant in ((0, 1, 2) if tier == "thorough" else (rnd.randint(0, 2),)):
                calls = [(op, a) for (op, a) in V if
                         (op == "set" and state != "inherited") or (op == "connect" and state == "idle")
                         or (op == "connect" and state == "inherited" and max([len(x) for x in a.values() if isinstance(x, str)] + [0]) < 70000
                             and (tier == "thorough" or max([len(x) for x in a.values() if isinstance(x, str)] + [0]) < 100 or a.get("clientId") in (TOOLONG, UTOOLONG)))
                         or (op == "publish" and prof != "sub" and state in ("connecting", "connected"))
                         or (op in ("subscribe", "unsubscribe") and prof != "pub" and state == "connected")]
                # the twin history without any extra call
                ref = out.world(prof, meta={"ref": 0, "p0": 0})
                history(ref, prof, state, variant); p0 = ref.n
                suffix(ref, prof)
                refid = out.done(ref)
                for op, a in calls:
                    w = out.world(prof, meta={"ref": refid, "p0": p0})
                    history(w, prof, state, variant)
                    apply_call(w, op, a)
                    suffix(w, prof)
                    out.done(w)



def fam_refstate(out, tier, rnd):
    """calls that the state (or the profile) refuses, made with parameters that differ from the session's, in every state;
    each history is paired with its twin without the call (meta.ref): nothing may differ afterwards          (C14)"""
    def prefix(w, prof, state, variant):
        if state == "disconnecting":
            history(w, prof, "connected", variant); w.disconnect(A)
        elif state == "refused":
            history(w, prof, "connecting", variant); w.recv(A, W.connack(5, 0))
        else:
            history(w, prof, state, variant)
    def calls(clean, ver):
        other = dict(clientId="other", keepalive=7, cleanStart=not clean, version=3 if ver == 4 else 4)
        return [("connect", other), ("connect", dict(other, version=ver)), ("connect", dict(other, cleanStart=clean)),
                ("publish", ("x/t", "xm", 1)), ("publish", ("x/t", "xm", 0)), ("publish", ("x/t", "xm", 2)),
                ("subscribe", ([("x/s", 2)], 0)), ("unsubscribe", (["x/s"],)), ("disconnect", None)]
    for prof in ("pub", "sub", "both"):
        for state in ("idle", "connecting", "connected", "disconnecting", "refused"):
            for variant in ((0, 1, 2, 3) if tier == "thorough" else (1, 2)):
                clean = bool(variant % 2); ver = 4 if variant < 2 else 3
                ref = out.world(prof, meta={"ref": 0, "p0": 0})
                prefix(ref, prof, state, variant); p0 = ref.n
                suffix(ref, prof)
                refid = out.done(ref)
                for op, a in calls(clean, ver):
                    w = out.world(prof, meta={"ref": refid, "p0": p0})
                    prefix(w, prof, state, variant)
                    if op == "disconnect":
                        w.disconnect(A)
                    else:
                        apply_call(w, op, a)
                    suffix(w, prof)
                    out.done(w)


# ------------------------------------------------------------------------------------------------ identifiers
def fam_ids(out, tier, rnd):
    """runs of consecutive identifiers held by unfinished requests of every kind (in flight at QoS 1 / 2, in the PUBREL
    phase, SUBSCRIBE, UNSUBSCRIBE, held back in the queue) in every order, with and without the 65535 -> 1 wrap inside the
    run; the counter is then placed just before the run and new requests of every kind are made            (C17)"""
    import itertools
    kinds = ("pub1", "pub2", "rel", "sub", "unsub")
    def mid_of(w):
        return next((e["mid"] for e in w.lines[-1]["fx"] if e["k"] == "ret"), -1)
    def make(w, kind):
        if kind == "pub1":
            w.publish(A, "t", "m", 1)
        elif kind == "pub2":
            w.publish(A, "t", "m", 2)
        elif kind == "rel":
            w.publish(A, "t", "m", 2); m = mid_of(w)
            if m > 0:
                w.recv(A, W.ack("PUBREC", m))
        elif kind == "pub1rec":               # a QoS 1 publish answered with the wrong kind of acknowledgement: still unfinished
            w.publish(A, "t", "m", 1); m = mid_of(w)
            if m > 0:
                w.recv(A, W.ack("PUBREC", m))
        elif kind == "pub2comp":              # a QoS 2 publish answered with PUBCOMP before any PUBREC: still unfinished
            w.publish(A, "t", "m", 2); m = mid_of(w)
            if m > 0:
                w.recv(A, W.ack("PUBCOMP", m))
        elif kind == "sub":
            w.subscribe(A, [("s/%d" % w.n, 1)])
        elif kind == "unsub":
            w.unsubscribe(A, ["s/%d" % w.n])
    def place(w, first):                      # the next identifier handed out is `first`
        w.pokeid((first - 2) % 65535 + 1)
    runs = list(itertools.product(kinds, repeat=3 if tier == "thorough" else 2))
    if tier == "quick":
        runs += [("sub", "pub1", "unsub"), ("rel", "pub1", "sub"), ("unsub", "sub", "rel"), ("pub2", "rel", "pub1")]
    # acknowledgements that do not fit the exchange leave the request unfinished (round 13)
    runs += [("pub1rec", "pub1"), ("pub1", "pub1rec"), ("pub2comp", "pub1rec"), ("pub1rec", "pub2comp", "rel")]
    for prof in ("both", "pub"):
        for first in (1, 65534, 65535, 300):
            if tier == "quick" and prof == "pub" and first != 65535:
                continue
            for run in runs:
                if prof == "pub" and any(k in ("sub", "unsub") for k in run):
                    continue
                for newkind in (("pub1", "sub", "pub2") if prof == "both" else ("pub1", "pub2")):
                    w = out.world(prof)
                    w.build(A); w.set(A, "onDisconnection", 1); w.set(A, "window", 8)
                    w.connect(A, keepalive=0, cleanStart=True); w.recv(A, W.connack(0, 0))
                    place(w, first)
                    for k in run:
                        make(w, k)
                    place(w, first - rnd.choice([0, 0, 1]))
                    for _ in range(3):
                        make(w, newkind)
                    w.lost(A, "done"); drain(w, 2)
                    out.done(w)
            # two addresses of one factory: the run is held by address A (its connection up, or lost with a persistent session),
            # the new requests are made on address B
            for run in runs:
                if (prof == "pub" and any(k in ("sub", "unsub") for k in run)) or (tier == "quick" and rnd.random() < 0.5):
                    continue
                for a_state in ("up", "lost-persistent"):
                    w = out.world(prof)
                    w.build(A); w.set(A, "onDisconnection", 1); w.set(A, "window", 8)
                    w.connect(A, keepalive=0, cleanStart=False); w.recv(A, W.connack(0, 0))
                    place(w, first)
                    for k in run:
                        make(w, k)
                    if a_state == "lost-persistent":
                        w.lost(A, "lost"); drain(w, 2)
                    w.build("B"); w.set("B", "onDisconnection", 1); w.set("B", "window", 8)
                    w.connect("B", keepalive=0, cleanStart=True); w.recv("B", W.connack(0, 0))
                    place(w, first - rnd.choice([0, 0, 1]))
                    nk = rnd.choice(("pub1", "sub", "pub2") if prof == "both" else ("pub1", "pub2"))
                    for _ in range(3):
                        if nk == "pub1":
                            w.publish("B", "t", "m", 1)
                        elif nk == "pub2":
                            w.publish("B", "t", "m", 2)
                        else:
                            w.subscribe("B", [("s/%d" % w.n, 1)])
                    w.lost("B", "done")
                    if a_state == "up":
                        w.lost(A, "done")
                    drain(w, 2)
                    out.done(w)
            # a long run: one publish in flight and 70 held back behind a window of 1 hold 71 consecutive identifiers
            if prof == "both" or first == 65535:
                w = out.world(prof)
                w.build(A); w.set(A, "onDisconnection", 1); w.set(A, "window", 1)
                w.connect(A, keepalive=0, cleanStart=True); w.recv(A, W.connack(0, 0))
                place(w, first)
                for j in range(71):
                    w.publish(A, "t", "r%d" % j, 1 + j % 2)
                place(w, first)
                make(w, "sub" if prof == "both" else "pub1")
                make(w, "pub2")
                w.lost(A, "done"); drain(w, 2)
                out.done(w)
            # held back in the queue: window 2, four publishes, then requests that are not subject to the publish window
            for qs in ((1, 1, 1, 1), (2, 1, 2, 1), (1, 2, 0, 1)):
                w = out.world(prof)
                w.build(A); w.set(A, "onDisconnection", 1); w.set(A, "window", 2)
                w.connect(A, keepalive=0, cleanStart=True); w.recv(A, W.connack(0, 0))
                place(w, first)
                for q in qs:
                    w.publish(A, "t", "m%d" % q, q)
                place(w, first)
                w.set(A, "window", 8)
                for _ in range(3):
                    make(w, "sub" if prof == "both" else "pub1")
                make(w, "pub1")
                w.lost(A, "done"); drain(w, 2)
                out.done(w)


# ------------------------------------------------------------------------------------------------ retransmission grid
def fam_retrygrid(out, tier, rnd):
    """one unacknowledged packet of every retransmittable kind x protocol version x initial timeout x bandwidth / factor
    setting x payload size, its retry timer expiring again and again with nothing else going on, then the acknowledgement:
    the whole delay sequence of a single packet (ceilings, backoff, size term) is on record                     (C08, C13)"""
    kinds = ("pub1", "pub2", "rel", "sub", "unsub")
    timeouts = (1, 2, 4, 7, 600, 1024)
    bws = (None, (1, 2), (1000, 2), (10000, 3), (1000000, 1), (1, 1), (100, 2))
    K = 22 if tier == "thorough" else 16
    def mid_of(w):
        return next((e["mid"] for e in w.lines[-1]["fx"] if e["k"] == "ret"), -1)
    for kind in kinds:
        sizes = ((0, 10, 1000, 4000) if tier == "thorough" else (10, 1000)) if kind.startswith("pub") else (0,)
        for ver in (3, 4):
            for T in timeouts:
                for bw in bws:
                    if not kind.startswith("pub") and bw not in (None, (1, 2)):
                        continue                     # the bandwidth term applies to PUBLISH only
                    for size in sizes:
                        prof = "both" if kind in ("sub", "unsub") or rnd.random() < 0.5 else "pub"
                        w = out.world(prof)
                        w.fire_limit = K + 2
                        w.build(A); w.set(A, "onDisconnection", 1); w.set(A, "window", 4)
                        w.set(A, "timeout", T)
                        if bw is not None:
                            w.set(A, "bandwith", bw[0], bw[1])
                        w.connect(A, keepalive=0, cleanStart=True, version=ver); w.recv(A, W.connack(0, 0))
                        if kind == "pub1":
                            w.publish(A, "t", "x" * size, 1)
                        elif kind in ("pub2", "rel"):
                            w.publish(A, "t", "x" * size, 2)
                        elif kind == "sub":
                            w.subscribe(A, [("s/1", 1), ("s/2", 2)])
                        else:
                            w.unsubscribe(A, ["s/1"])
                        m = mid_of(w)
                        if kind == "rel" and m > 0:
                            if bw is None and T <= 7:
                                w.set(A, "timeout", 1000)      # the PUBREL is first sent under another timeout than its PUBLISH was
                            w.recv(A, W.ack("PUBREC", m))
                        n = 0
                        fac = bw[1] if bw else 2
                        # A8: the specification's 32-bit integers hold factor^n * size only below 2^30 (driver guard, no judgement)
                        while (n < K and w.due() and w.due()[0].at < 2 ** 28 and w.in_range(w.due()[0])
                               and (not kind.startswith("pub") or fac ** (n + 2) * (size + 32) < 2 ** 29)):
                            w.fire(w.due()[0]); n += 1
                        if m > 0 and w.t[A].phase == "open":
                            if kind == "pub1":
                                w.recv(A, W.ack("PUBACK", m))
                            elif kind == "pub2":
                                w.recv(A, W.ack("PUBREC", m)); w.recv(A, W.ack("PUBCOMP", m))
                            elif kind == "rel":
                                w.recv(A, W.ack("PUBCOMP", m))
                            elif kind == "sub":
                                w.recv(A, W.suback(m, [1, 2]))
                            else:
                                w.recv(A, W.ack("UNSUBACK", m))
                        w.lost(A, "done"); drain(w, 2)
                        out.done(w)


# ------------------------------------------------------------------------------------------------ inbound QoS 2 across connections
def fam_inbound2(out, tier, rnd):
    """an inbound QoS 2 exchange cut by a loss at each of its points, followed by every kind of reconnection (clean or
    persistent, session present or not, 3.1 or 3.1.1, directly or after a refused attempt) and by what a broker may then
    send: the PUBREL, the PUBLISH again (DUP) and its PUBREL, or another message under the same identifier       (C06)"""
    conts = ("pubrel", "dup+pubrel", "other+pubrel", "pubrel+pubrel")
    for prof in ("sub", "both"):
        for ver in (3, 4):
            for clean1 in (False, True):
                for cut in ("after-publish", "after-two", "after-pubrel"):
                    for clean2 in (False, True):
                        for sp in (0, 1):
                            for refused_first in (False, True):
                                if tier == "quick" and refused_first and (clean1 or cut == "after-two"):
                                    continue
                                for cont in conts:
                                    if tier == "quick" and cont == "pubrel+pubrel" and (clean2 or sp):
                                        continue
                                    w = out.world(prof)
                                    w.build(A); w.set(A, "onDisconnection", 1); w.set(A, "onPublish", 1)
                                    w.connect(A, keepalive=0, cleanStart=clean1, version=ver); w.recv(A, W.connack(0, 0))
                                    w.recv(A, W.publish("in/a", b"first", 2, 7))
                                    if cut == "after-two":
                                        w.recv(A, W.publish("in/b", b"second", 2, 8, 0, 1))
                                    if cut == "after-pubrel":
                                        w.recv(A, W.ack("PUBREL", 7))
                                    w.lost(A, rnd.choice(["done", "lost"])); drain(w, 2)
                                    w.build(A); w.set(A, "onDisconnection", 1); w.set(A, "onPublish", 1)
                                    w.connect(A, keepalive=0, cleanStart=clean2, version=ver)
                                    if refused_first:
                                        w.recv(A, W.connack(3, 0))
                                        if w.t[A].phase == "open":
                                            w.connect(A, keepalive=0, cleanStart=clean2, version=ver)
                                    if w.t[A].phase == "open":
                                        w.recv(A, W.connack(0, sp if ver == 4 else 0))
                                        if cont == "dup+pubrel":
                                            w.recv(A, W.publish("in/a", b"first", 2, 7, 1))
                                        elif cont == "other+pubrel":
                                            w.recv(A, W.publish("in/c", b"third", 2, 7, 0, 1))
                                        w.recv(A, W.ack("PUBREL", 7))
                                        if cont == "pubrel+pubrel":
                                            # (a repeated PUBREL carries DUP under 3.1: first byte 0x6A)
                                            w.recv(A, bytes([0x6A, 2, 0, 7]) if ver == 3 else W.ack("PUBREL", 7))
                                        w.recv(A, W.ack("PUBREL", 8))
                                        w.recv(A, W.publish("in/d", b"q1", 1, 9))
                                    if w.t[A].phase != "lost":
                                        w.lost(A, "done")
                                    drain(w, 2)
                                    out.done(w)


# ------------------------------------------------------------------------------------------------ resumption over three connections
def written_ids(w, since=0):
    """(type, qos, id) of the PUBLISH / PUBREL packets written from line `since` on (taken from the bytes on the wire)"""
    out = []
    for ln in w.lines[since:]:
        for e in ln["fx"]:
            b = e.get("bytes")
            if e["k"] != "write" or not b:
                continue
            t = b[0] >> 4
            i = 1
            while b[i] & 0x80:
                i += 1
            i += 1
            if t == 3 and (b[0] >> 1) & 3:
                tl = b[i] * 256 + b[i + 1]
                out.append(("PUBLISH", (b[0] >> 1) & 3, b[i + 2 + tl] * 256 + b[i + 3 + tl]))
            elif t == 6:
                out.append(("PUBREL", 2, b[i] * 256 + b[i + 1]))
    return out


def fam_resume(out, tier, rnd):
    """a persistent session carried over three connections: publishes of mixed QoS in flight and held back on the first,
    more of them before / after the CONNACK of the second, which is lost before or after its CONNACK, and a third that
    resumes (or clears) everything and gets every acknowledgement                                        (C12, C13, C10)"""
    pats = ([1], [2], [1, 2], [2, 1, 1], [1, 0, 2], [2, 2, 1, 1])
    for prof in ("pub", "both"):
        for win in (1, 2, 3):
            for pat in pats:
                for rec1 in (False, True):
                    for k2 in (0, 1, 2):
                        for stage2 in ("lost-before-connack", "connack-then-lost", "connack-ack-then-lost"):
                            for clean3 in (False, True):
                                if tier == "quick" and rnd.random() < (0.8 if clean3 else 0.5):
                                    continue
                                # protocol versions of the three connections (a 3.1 session may be resumed under 3.1.1 and back)
                                v1, v2, v3 = rnd.choice([(4, 4, 4), (3, 3, 3), (3, 4, 3), (4, 3, 3), (3, 3, 4)])
                                w = out.world(prof)
                                w.build(A); w.set(A, "onDisconnection", 1); w.set(A, "window", win)
                                if rnd.random() < 0.3:
                                    w.set(A, "timeout", 100)      # the later protocols keep the default of 4: what is resumed keeps its own pace
                                w.connect(A, keepalive=0, cleanStart=False, version=v1); w.recv(A, W.connack(0, 0))
                                if len(pat) >= 2 and rnd.random() < 0.5:
                                    w.pokeid(65535 - rnd.randint(1, len(pat) - 1))      # the identifiers in flight straddle the 65535 -> 1 wrap
                                if prof == "both":
                                    w.subscribe(A, [("s/a", 1), ("s/b", 2)]); w.unsubscribe(A, ["s/c"])
                                for j, q in enumerate(pat):
                                    w.publish(A, "t/%d" % j, "c1-%d" % j, q)
                                if rec1:
                                    first2 = [x for x in written_ids(w) if x[0] == "PUBLISH" and x[1] == 2]
                                    if first2:
                                        w.recv(A, W.ack("PUBREC", first2[0][2]))
                                w.lost(A, rnd.choice(["done", "lost"])); drain(w, 2)
                                # second connection
                                w.build(A); w.set(A, "onDisconnection", 1); w.set(A, "window", max(win, 2) if k2 else win)
                                w.connect(A, keepalive=0, cleanStart=False, version=v2)
                                for j in range(k2):
                                    w.publish(A, "u/%d" % j, "c2-%d" % j, 1 + j % 2)
                                if stage2 != "lost-before-connack":
                                    w.recv(A, W.connack(0, 1))
                                    w.publish(A, "u/x", "c2-after", 1)
                                    if stage2 == "connack-ack-then-lost":
                                        seen = written_ids(w)
                                        if seen:
                                            t, q, i = seen[0]
                                            w.recv(A, W.ack("PUBCOMP" if t == "PUBREL" else ("PUBACK" if q == 1 else "PUBREC"), i))
                                w.lost(A, "lost")
                                if stage2 == "lost-before-connack" and rnd.random() < 0.7:
                                    # only the loss notification runs now: the connect timeout of this abandoned handshake comes due while the
                                    # third connection is up
                                    while w.due() and w.due()[0].at - W.clock.now <= 200 and w.in_range(w.due()[0]):
                                        w.fire(w.due()[0])
                                else:
                                    drain(w, 2)
                                # third connection: resumes or clears, then every acknowledgement in wire order
                                w.build(A); w.set(A, "onDisconnection", 1); w.set(A, "window", 3)
                                mark = len(w.lines)
                                w.connect(A, keepalive=0, cleanStart=clean3, version=v3)
                                w.publish(A, "v", "c3-early", 1)
                                w.recv(A, W.connack(0, 0 if clean3 else 1))
                                if rnd.random() < 0.5:
                                    # the broker stays silent for a while: retransmissions on the third connection, and whatever timers
                                    # the earlier connections left behind come due while it is up
                                    n = 0
                                    while n < 7 and w.due() and w.in_range(w.due()[0]) and w.t[A].phase == "open":
                                        w.fire(w.due()[0]); n += 1
                                for _ in range(12):
                                    todo = []
                                    for t, q, i in written_ids(w, mark):
                                        if (t, q, i) not in todo:
                                            todo.append((t, q, i))
                                    mark = len(w.lines)
                                    if not todo or w.t[A].phase != "open":
                                        break
                                    for t, q, i in todo:
                                        w.recv(A, W.ack("PUBCOMP" if t == "PUBREL" else ("PUBACK" if q == 1 else "PUBREC"), i))
                                if w.due() and w.in_range(w.due()[0]):
                                    w.fire(w.due()[0])
                                w.lost(A, "done"); drain(w, 3)
                                out.done(w)


# ------------------------------------------------------------------------------------------------ connect() after the loss, same protocol object
def fam_deadconnect(out, tier, rnd):
    """C04 speaks of "an idle protocol": that includes a protocol whose connection has been lost.  connect() is called
    again on such a protocol object (plainly after the loss, from the errback of a request failed by the loss, from
    onDisconnection), with the first handshake's timeout still to come.  Judged for C04 only (every other property is
    stated under A1: no connect() on a protocol whose transport is gone)                                       (C04)"""
    for prof in ("pub", "sub", "both"):
        for ka in (0, 3):
            for early in ((), (1,), (2, 1)):
                if prof == "sub" and early:
                    continue
                for how in ("plain", "errback", "onDisconnection"):
                    if how == "errback" and not early:
                        continue
                    for clean in (True, False):
                        for later in ("timeouts", "connack-late"):
                            w = out.world(prof, meta={"reactive": 1} if how != "plain" else None)
                            w.build(A); w.set(A, "onDisconnection", 1)
                            w.connect(A, keepalive=ka, cleanStart=clean)
                            hs = []
                            for q in early:
                                w.publish(A, "t", "e%d" % q, q); hs.append(last_handle(w))
                            again = lambda: w.connect(A, keepalive=ka, cleanStart=clean)
                            if how == "errback" and clean:
                                w.on_deferred(hs[0], "fail", again)
                            elif how == "onDisconnection":
                                w.on_cb(A, "onDisconnection", again)
                            w.lost(A, "lost")
                            if how == "plain" or (how == "errback" and not clean):
                                again()
                            drain(w, 6)
                            out.done(w)


# ------------------------------------------------------------------------------------------------ two keepalives
def fam_ka2(out, tier, rnd):
    """two connections of one factory (two addresses), each with its own keepalive: the keepalive of one must go on,
    answered or not, whatever happens to the other (loss, disconnect(), ping timeout, a protocol rebuilt)      (C15, C13)"""
    B = "B"
    for prof in ("pub", "sub", "both"):
        for kaA, kaB in ((2, 3), (3, 3), (5, 2), (2, 0)):
            for event in ("lostA", "disconnectA", "timeoutA", "rebuildA", "none"):
                for answerB in (True, False):
                    if tier == "quick" and prof != "both" and (event in ("none", "rebuildA") or not answerB):
                        continue
                    w = out.world(prof)
                    w.fire_limit = 30
                    def answer(answerA=True):           # answer the PINGREQs written by the last step
                        for e in list(w.lines[-1]["fx"]):
                            if e["k"] == "write" and e.get("bytes") and e["bytes"][0] == 0xC0:
                                x = e["c"][0]
                                if w.t[x].phase == "open" and ((x == A and answerA) or (x == B and answerB)):
                                    w.recv(x, W.PINGRESP)
                    for x, ka in ((A, kaA), (B, kaB)):
                        w.build(x); w.set(x, "onDisconnection", 1)
                        w.connect(x, keepalive=ka, cleanStart=True); w.recv(x, W.connack(0, 0)); answer()
                    def pump(n, answerA=True):
                        for _ in range(n):
                            if not w.due() or not w.in_range(w.due()[0]):
                                return
                            w.fire(w.due()[0]); answer(answerA)
                    pump(4)
                    if event == "lostA":
                        w.lost(A, "lost")
                    elif event == "disconnectA":
                        w.disconnect(A); w.lost(A, "done")
                    elif event == "timeoutA":
                        pump(8, answerA=False)
                        if w.t[A].phase != "lost":
                            w.lost(A, "lost")
                    elif event == "rebuildA":
                        w.lost(A, "lost"); w.build(A); w.set(A, "onDisconnection", 1)
                        w.connect(A, keepalive=kaA, cleanStart=True); w.recv(A, W.connack(0, 0)); answer()
                    pump(10)
                    for x in (A, B):
                        if w.t[x].phase != "lost":
                            w.lost(x, "done")
                    drain(w, 4)
                    out.done(w)


# ------------------------------------------------------------------------------------------------ everything pending at the end
def fam_heldback(out, tier, rnd):
    """messages held back behind a full window when a persistent connection is lost, released by the resumption of a new
    protocol with a larger window: their first transmission (no DUP, original order, QoS 0 included)   (C10, C12, C18)"""
    for prof in ("pub", "both"):
        for ver in (3, 4):
            for held in ((0,), (1,), (2,), (0, 1), (2, 0, 1), (0, 0)):
                for win2 in (1, 3):
                    w = out.world(prof)
                    w.build(A); w.set(A, "onDisconnection", 1); w.set(A, "window", 1)
                    w.connect(A, keepalive=0, cleanStart=False, version=ver); w.recv(A, W.connack(0, 0))
                    w.publish(A, "t", "inflight", 1)
                    for j, q in enumerate(held):
                        w.publish(A, "h/%d" % j, "held%d" % j, q)
                    w.lost(A, "lost"); drain(w, 2)
                    w.build(A); w.set(A, "onDisconnection", 1); w.set(A, "window", win2)
                    mark = len(w.lines)
                    w.connect(A, keepalive=0, cleanStart=False, version=ver); w.recv(A, W.connack(0, 1))
                    for _ in range(8):
                        todo = []
                        for t, q, i in written_ids(w, mark):
                            if (t, q, i) not in todo:
                                todo.append((t, q, i))
                        mark = len(w.lines)
                        if not todo or w.t[A].phase != "open":
                            break
                        for t, q, i in todo:
                            w.recv(A, W.ack("PUBCOMP" if t == "PUBREL" else ("PUBACK" if q == 1 else "PUBREC"), i))
                    w.lost(A, "done"); drain(w, 2)
                    out.done(w)


def fam_lossall(out, tier, rnd):
    """requests of every kind pending at once (QoS 1 in flight, QoS 2 in its PUBLISH and in its PUBREL phase, QoS 0/1/2 held
    back, SUBSCRIBE, UNSUBSCRIBE), optionally an inbound QoS 2 message half received, and the connection ending in each
    possible way, in a clean and in a persistent session; a persistent connection of a new protocol then shows what was
    carried over                                                                               (C11, C12, C13, C04)"""
    for prof in ("pub", "sub", "both"):
        for inbound2 in ((False, True) if prof != "pub" else (False,)):
            for ending in ("done", "lost", "garbage", "katimeout", "disconnect", "connect-timeout"):
                for clean in (True, False):
                    for ver in ((3, 4) if tier == "thorough" else (4,)):
                        w = out.world(prof)
                        w.build(A); w.set(A, "onDisconnection", 1); w.set(A, "onPublish", 1); w.set(A, "window", 3)
                        w.connect(A, keepalive=2 if ending == "katimeout" else 0, cleanStart=clean, version=ver)
                        if ending == "connect-timeout":
                            if prof != "sub":
                                w.publish(A, "t", "early1", 1); w.publish(A, "t", "early2", 2)
                            n = 0
                            while w.t[A].phase == "open" and w.due() and w.in_range(w.due()[0]) and n < 8:
                                w.fire(w.due()[0]); n += 1
                        else:
                            w.recv(A, W.connack(0, 0))
                            if prof != "sub":
                                w.publish(A, "t", "q1", 1)
                                w.publish(A, "t", "q2rel", 2); mrel = next((e["mid"] for e in w.lines[-1]["fx"] if e["k"] == "ret"), 2)
                                w.recv(A, W.ack("PUBREC", mrel))
                                w.publish(A, "t", "q2pub", 2)
                                w.publish(A, "t", "h1", 1); w.publish(A, "t", "h0", 0); w.publish(A, "t", "h2", 2); w.publish(A, "t", "h1b", 1)
                            if prof != "pub":
                                w.subscribe(A, [("s/1", 1)]); w.unsubscribe(A, ["s/0"]); w.subscribe(A, [("s/2", 2)])
                                if inbound2:
                                    w.recv(A, W.publish("in/q2", b"half", 2, 9))
                            if ending == "garbage":
                                w.recv(A, b"\xf0\x00")
                            elif ending == "katimeout":
                                n = 0
                                while w.t[A].phase == "open" and w.due() and w.in_range(w.due()[0]) and n < 12:
                                    w.fire(w.due()[0]); n += 1
                            elif ending == "disconnect":
                                w.disconnect(A)
                        if w.t[A].phase != "lost":
                            w.lost(A, "done" if ending in ("done", "disconnect") else "lost")
                        drain(w, 3)
                        w.build(A); w.set(A, "onDisconnection", 1); w.set(A, "onPublish", 1); w.set(A, "window", 3)
                        w.connect(A, keepalive=0, cleanStart=False, version=ver); w.recv(A, W.connack(0, 1))
                        if prof != "sub":
                            w.publish(A, "t", "fresh", 1)
                        if prof != "pub" and inbound2:
                            w.recv(A, W.ack("PUBREL", 9))
                        w.lost(A, "done"); drain(w, 3)
                        out.done(w)


# ------------------------------------------------------------------------------------------------ valid connect() arguments
def fam_validconnect(out, tier, rnd):
    """connect() with each kind of VALID argument combination (credentials, empty strings, will variants, boundary
    keepalives and client ids, both versions) on an idle protocol of each profile, answered by an accepting or a refusing
    CONNACK, then the loss: C04's handshake outcome does not depend on which valid arguments are used            (C04)"""
    base = dict(clientId="cid", keepalive=0, cleanStart=True, version=4)
    combos = [dict(), dict(username="u"), dict(username="u", password="pw"), dict(username="", password="secret"), dict(username="", password=""),
              dict(username="u", password=""), dict(username=""), dict(clientId=""), dict(clientId="x" * 23, version=3), dict(clientId="\u00e9" * 23, version=3),
              dict(clientId="x" * 200), dict(willTopic="w", willMessage="m", willQoS=2, willRetain=True), dict(willTopic="w", willMessage=""),
              dict(willTopic="", willMessage="m"), dict(willQoS=2, willRetain=True), dict(keepalive=65535), dict(keepalive=1), dict(cleanStart=False),
              dict(username="\u00e9" * 100, password="\u20ac" * 50), dict(willTopic="\ufeffw", willMessage="\ufeff")]
    for prof in ("pub", "sub", "both"):
        for kw in combos:
            for code in (0, 5):
                if tier == "quick" and code == 5 and prof != "both":
                    continue
                w = out.world(prof)
                w.build(A); w.set(A, "onDisconnection", 1)
                w.connect(A, **dict(base, **kw))
                if w.t[A].phase == "open":
                    w.recv(A, W.connack(code, 0))
                if w.t[A].phase != "lost":
                    w.lost(A, "done")
                drain(w, 2)
                out.done(w)


# ------------------------------------------------------------------------------------------------ small deterministic corners
def fam_corners(out, tier, rnd):
    """(a) a publish made while connecting whose retry timer expires 0, 1 or 2 times before the CONNACK, then the
    acknowledgements; (b) more SUBSCRIBE / UNSUBSCRIBE requests pending than the window in force - the window shrunk, or
    a persistent session resumed by a new protocol with the default window of 1 - and one more call     (C05, C07, C08, C10, C13)"""
    def mid_of(w):
        return next((e["mid"] for e in w.lines[-1]["fx"] if e["k"] == "ret"), -1)
    for prof in ("pub", "both"):
        for q in (1, 2):
            for nexp in (0, 1, 2):
                for clean in (True, False):
                    w = out.world(prof)
                    w.build(A); w.set(A, "onDisconnection", 1); w.set(A, "window", 2)
                    w.connect(A, keepalive=0, cleanStart=clean)
                    w.publish(A, "t", "early", q); m = mid_of(w)
                    w.publish(A, "t", "early-b", 1); m2 = mid_of(w)
                    n = 0
                    while n < nexp and w.due() and w.in_range(w.due()[0]) and W.state_name(w.p[A]) == "ConnectingState":
                        w.fire(w.due()[0]); n += 1
                    if W.state_name(w.p[A]) == "ConnectingState" and w.t[A].phase == "open":
                        w.recv(A, W.connack(0, 0))
                        if q == 1:
                            w.recv(A, W.ack("PUBACK", m))
                        else:
                            w.recv(A, W.ack("PUBREC", m)); w.recv(A, W.ack("PUBCOMP", m))
                        if w.due() and w.in_range(w.due()[0]):
                            w.fire(w.due()[0])
                        w.recv(A, W.ack("PUBACK", m2))
                    if w.t[A].phase != "lost":
                        w.lost(A, "done")
                    drain(w, 3); out.done(w)
    # (c) a QoS 2 exchange whose acknowledgements arrive out of order: PUBCOMP before any PUBREC (stale, from an earlier use of
    # the identifier), optionally a timer expiry, then the exchange proper                                       (round 13)
    for prof in ("pub", "both"):
        for nexp in (0, 1):
            for clean in (True, False):
                w = out.world(prof)
                w.build(A); w.set(A, "onDisconnection", 1); w.set(A, "window", 2)
                w.connect(A, keepalive=0, cleanStart=clean); w.recv(A, W.connack(0, 0))
                w.publish(A, "t", "q2", 2); m = mid_of(w)
                w.recv(A, W.ack("PUBCOMP", m))
                if nexp and w.due() and w.in_range(w.due()[0]):
                    w.fire(w.due()[0])
                w.publish(A, "t", "next", 1); m2 = mid_of(w)
                w.recv(A, W.ack("PUBREC", m)); w.recv(A, W.ack("PUBACK", m2)); w.recv(A, W.ack("PUBCOMP", m))
                w.lost(A, "done")
                drain(w, 3); out.done(w)
    for prof in ("sub", "both"):
        for kind in ("subscribe", "unsubscribe"):
            for how in ("shrunk", "resumed"):
                w = out.world(prof)
                w.build(A); w.set(A, "onDisconnection", 1); w.set(A, "window", 3)
                w.connect(A, keepalive=0, cleanStart=False); w.recv(A, W.connack(0, 0))
                ids = []
                for j in range(3):
                    if kind == "subscribe":
                        w.subscribe(A, [("s/%d" % j, 1)])
                    else:
                        w.unsubscribe(A, ["s/%d" % j])
                    ids.append(mid_of(w))
                if how == "shrunk":
                    w.set(A, "window", 2)
                else:
                    w.lost(A, "lost"); drain(w, 2)
                    w.build(A); w.set(A, "onDisconnection", 1)          # window 1 by default
                    w.connect(A, keepalive=0, cleanStart=False); w.recv(A, W.connack(0, 1))
                for _ in range(2):                                       # refused: at least as many pending as the window
                    if kind == "subscribe":
                        w.subscribe(A, [("s/x", 0)])
                    else:
                        w.unsubscribe(A, ["s/x"])
                for i in ids:
                    if i > 0 and w.t[A].phase == "open":
                        w.recv(A, W.suback(i, [1]) if kind == "subscribe" else W.ack("UNSUBACK", i))
                # a call that passes the checks and is refused by the encoder leaves nothing behind: the next one is accepted
                if kind == "subscribe":
                    w.subscribe(A, [("ok", 1), (TOOLONG, 1)])
                else:
                    w.unsubscribe(A, ["ok", TOOLONG])
                if kind == "subscribe":
                    w.subscribe(A, [("s/y", 2)])
                else:
                    w.unsubscribe(A, ["s/y"])
                w.lost(A, "done"); drain(w, 3); out.done(w)

# ------------------------------------------------------------------------------------------------ react (stage 3)
def actions(w):
    """what an application may do from inside a callback"""
    return {
        "publish0": lambda: w.publish(A, "r/t", "re0", 0), "publish1": lambda: w.publish(A, "r/t", "re1", 1),
        "publish2": lambda: w.publish(A, "r/t", "re2", 2), "subscribe": lambda: w.subscribe(A, [("r/s", 1)]),
        "unsubscribe": lambda: w.unsubscribe(A, ["r/s"]), "disconnect": lambda: w.disconnect(A),
        "connect": lambda: w.t[A].phase == "open" and w.connect(A, keepalive=0, cleanStart=True),      # A1
    }


def last_handle(w):
    for e in reversed(w.lines[-1]["fx"]):
        if e["k"] == "ret":
            return e["d"]
    return 0


def fam_react(out, tier, rnd):
    names = ["publish0", "publish1", "publish2", "subscribe", "unsubscribe", "disconnect", "connect"]
    windows = (1, 2, 16) if tier == "quick" else (1, 2, 3, 4, 16)
    def start(prof, ka=0, clean=True, window=1, handlers=True):
        w = out.world(prof, meta={"reactive": 1})
        w.build(A)
        if handlers:
            w.set(A, "onDisconnection", 1); w.set(A, "onPublish", 1); w.set(A, "onMqttConnectionMade", 1)
        w.set(A, "window", window)
        return w
    def finish(w):
        if w.t[A].phase != "lost":
            w.lost(A, "done")
        drain(w, 6); out.done(w)
    for prof in ("pub", "sub", "both"):
        for act in names:
            # (a) the application reacts to the acknowledgement of a request while the window is otherwise full
            for kind in ("publish1", "publish2", "subscribe", "unsubscribe"):
                if (kind.startswith("publish") and prof == "sub") or (not kind.startswith("publish") and prof == "pub"):
                    continue
                for win in windows:
                    for extra in (0, 1):                   # the window exactly full / one request held back or refused
                        w = start(prof, window=win)
                        w.connect(A, keepalive=0, cleanStart=True); w.recv(A, W.connack(0, 0))
                        hs = []
                        for i in range(win + extra):
                            actions(w)[kind](); hs.append(last_handle(w))
                        w.on_deferred(hs[0], "ok", actions(w)[act])
                        first = w.lines[-(win + extra)]
                        mid = next((e["mid"] for e in first["fx"] if e["k"] == "ret"), 1)
                        if kind == "publish1":
                            w.recv(A, W.ack("PUBACK", mid))
                        elif kind == "publish2":
                            w.recv(A, W.ack("PUBREC", mid)); w.recv(A, W.ack("PUBCOMP", mid))
                        elif kind == "subscribe":
                            w.recv(A, W.suback(mid, [1]))
                        else:
                            w.recv(A, W.ack("UNSUBACK", mid))
                        actions(w)["publish1" if prof != "sub" else "subscribe"]()      # the state afterwards, observed by one more call
                        finish(w)
            # (b) ... to the failure of a request: loss of a clean connection, clean connect() over a persistent session
            for kind in ("publish1", "publish2", "subscribe"):
                if (kind.startswith("publish") and prof == "sub") or (not kind.startswith("publish") and prof == "pub"):
                    continue
                for clean in (True, False):
                    w = start(prof, window=2)
                    w.connect(A, keepalive=2, cleanStart=clean); w.recv(A, W.connack(0, 0))
                    hs = []
                    for i in range(3):
                        actions(w)[kind](); hs.append(last_handle(w))
                    w.on_deferred(hs[0], "fail", actions(w)[act])
                    w.on_deferred(hs[2], "fail", actions(w)["publish1" if prof != "sub" else "subscribe"])
                    w.lost(A, "lost")
                    w.build(A); w.set(A, "onDisconnection", 1)
                    w.connect(A, keepalive=0, cleanStart=True)       # purges what a persistent session kept
                    w.recv(A, W.connack(0, 0))
                    actions(w)["publish1" if prof != "sub" else "subscribe"]()
                    finish(w)
            # (c) ... to the outcome of connect(): accepted, refused, timed out
            for outcome in ("ok", "refused", "timeout"):
                for ka in (0, 3):
                    w = start(prof)
                    w.connect(A, keepalive=ka, cleanStart=True)
                    w.on_deferred(last_handle(w), "ok" if outcome == "ok" else "fail", actions(w)[act])
                    if outcome == "timeout":
                        w.fire(w.due()[0])
                    else:
                        w.recv(A, W.connack(0 if outcome == "ok" else 5, 0))
                    if w.t[A].phase == "open" and W.state_name(w.p[A]) == "ConnectingState":
                        w.recv(A, W.connack(0, 0))
                    actions(w)["publish1" if prof != "sub" else "subscribe"]()
                    if w.due() and ka:
                        w.fire(w.due()[0])
                    finish(w)
            # (d) ... inside the handlers: onMqttConnectionMade, onPublish (QoS 0, 1, 2 at PUBREL), onDisconnection
            for ka in (0, 3):
                w = start(prof)
                w.on_cb(A, "onMqttConnectionMade", actions(w)[act])
                w.connect(A, keepalive=ka, cleanStart=False); w.recv(A, W.connack(0, 1))
                actions(w)["publish1" if prof != "sub" else "subscribe"]()
                if w.due():
                    w.fire(w.due()[0])
                finish(w)
            # ... onMqttConnectionMade of a connection that inherits a persistent session with unfinished requests of every kind
            for ka in (0, 3):
                for sp in (0, 1):
                    w = start(prof, window=3)
                    w.connect(A, keepalive=0, cleanStart=False); w.recv(A, W.connack(0, 0))
                    if prof != "sub":
                        w.publish(A, "t", "q2", 2); mid2 = next((e["mid"] for e in w.lines[-1]["fx"] if e["k"] == "ret"), 1)
                        w.publish(A, "t", "q1", 1); w.publish(A, "t", "q2b", 2); w.publish(A, "t", "held", 1)
                        w.recv(A, W.ack("PUBREC", mid2))
                    if prof != "pub":
                        w.subscribe(A, [("s/1", 1)]); w.unsubscribe(A, ["s/0"])
                    w.lost(A, "lost")
                    w.build(A); w.set(A, "onDisconnection", 1); w.set(A, "onPublish", 1); w.set(A, "onMqttConnectionMade", 1); w.set(A, "window", 3)
                    w.on_cb(A, "onMqttConnectionMade", actions(w)[act])
                    w.connect(A, keepalive=ka, cleanStart=False); w.recv(A, W.connack(0, sp))
                    actions(w)["publish1" if prof != "sub" else "subscribe"]()
                    if w.due() and w.in_range(w.due()[0]):
                        w.fire(w.due()[0])
                    finish(w)
            if prof != "pub":
                for q in (0, 1, 2):
                    w = start(prof)
                    w.connect(A, keepalive=0, cleanStart=True); w.recv(A, W.connack(0, 0))
                    w.on_cb(A, "onPublish", actions(w)[act])
                    w.recv(A, W.publish("in", b"x", q, 9))
                    if q == 2:
                        w.recv(A, W.ack("PUBREL", 9))
                    w.recv(A, W.publish("in", b"y", 1, 10))
                    finish(w)
            w = start(prof)
            w.connect(A, keepalive=0, cleanStart=True); w.recv(A, W.connack(0, 0))
            w.on_cb(A, "onDisconnection", actions(w)[act])
            w.lost(A, "done"); drain(w, 3)
            out.done(w)


def main():
    outdir, fam, tier, seed = sys.argv[1], sys.argv[2], sys.argv[3], int(sys.argv[4])
    rnd = random.Random(seed)
    out = Out(outdir)
    {"handshake": fam_handshake, "inject": fam_inject, "args": fam_args, "react": fam_react, "refused": fam_refused, "refstate": fam_refstate, "ids": fam_ids, "retrygrid": fam_retrygrid, "inbound2": fam_inbound2, "resume": fam_resume, "deadconnect": fam_deadconnect, "pktstate": fam_pktstate, "corners": fam_corners, "validconnect": fam_validconnect, "lossall": fam_lossall, "heldback": fam_heldback, "ka2": fam_ka2}[fam](out, tier, rnd)
    out.close()


if __name__ == "__main__":
    main()
