"""C19 driver: two scripted histories run alone (one factory each) and interleaved through ONE factory on two addresses.

A script is a list of address-local steps; acknowledgements refer to "the k-th packet of that kind written on this
address", so that the same script can be run alone and interleaved although the shared identifier counter hands out
different identifiers.  No judgement here: OK_C19 (TraceMon) compares the projection of the joint execution on each
address with the execution of the script alone, step by step, under an injective renaming of identifiers and handles.

usage: pair_driver.py <outdir> <tier> <seed> -> <outdir>/all.ndjson, all.idx.json
"""
import sys, json, random, os, itertools
import world as W


def gen_script(rnd, prof, length):
    s = [("build",), ("set", "onDisconnection", 1), ("set", "onPublish", 1), ("set", "window", rnd.choice([1, 2, 3]))]
    state = "idle"; pend = {"PUBACK": 0, "PUBREC": 0, "PUBCOMP": 0, "SUBACK": 0, "UNSUBACK": 0}; gens = 1
    clean = rnd.random() < 0.5
    for _ in range(length):
        r = rnd.random()
        if state == "idle":
            s.append(("connect", clean)); state = "connecting"
        elif state == "connecting":
            if r < 0.25 and prof != "sub":
                q = rnd.choice([0, 1, 2]); s.append(("publish", q, rnd.choice(["p", "payload"])))
                if q == 1: pend["PUBACK"] += 1
                if q == 2: pend["PUBREC"] += 1
            elif r < 0.35:
                s.append(("lost",)); state = "lost"
            else:
                s.append(("connack",)); state = "connected"
        elif state == "connected":
            if r < 0.3 and prof != "sub":
                q = rnd.choice([0, 1, 2]); s.append(("publish", q, rnd.choice(["p", "payload"])))
                if q == 1: pend["PUBACK"] += 1
                if q == 2: pend["PUBREC"] += 1
            elif r < 0.42 and prof != "pub":
                s.append(("subscribe",)); pend["SUBACK"] += 1
            elif r < 0.5 and prof != "pub":
                s.append(("unsubscribe",)); pend["UNSUBACK"] += 1
            elif r < 0.75:
                kinds = [k for k, v in pend.items() if v > 0]
                if kinds:
                    k = rnd.choice(kinds); s.append(("ack", k, rnd.randint(0, 2)))
                    if k == "PUBREC": pend["PUBCOMP"] += 1
                else:
                    s.append(("ack", "PUBACK", 0))        # stray
            elif r < 0.85 and prof != "pub":
                q = rnd.randint(0, 2); s.append(("inbound", q, rnd.choice([5, 6])))
                if q == 2 and rnd.random() < 0.7:
                    s.append(("pubrel", 5 if rnd.random() < 0.5 else 6))
            elif r < 0.9:
                s.append(("set", "window", rnd.choice([1, 2, 4])))
            elif r < 0.97:
                s.append(("lost",)); state = "lost"
            else:
                s.append(("disconnect",))
        elif state == "lost":
            if gens >= 3:
                break
            gens += 1
            s += [("build",), ("set", "onDisconnection", 1), ("set", "onPublish", 1)]
            clean = rnd.random() < 0.5
            state = "idle"
    return s


class Local(object):
    """address-local view of what was written (to resolve symbolic acknowledgements)"""
    def __init__(self):
        self.seen = {"PUBACK": [], "PUBREC": [], "PUBCOMP": [], "SUBACK": [], "UNSUBACK": []}

    def observe(self, line, a):
        for e in line["fx"]:
            if e["k"] != "write" or e["c"][0] != a:
                continue
            b = e["bytes"]; ty = b[0] >> 4; i = 1
            while b[i] & 0x80:
                i += 1
            i += 1
            if ty == 3:
                q = (b[0] >> 1) & 3
                if q:
                    tl = b[i] * 256 + b[i + 1]; mid = b[i + 2 + tl] * 256 + b[i + 3 + tl]
                    k = "PUBACK" if q == 1 else "PUBREC"
                    if mid not in self.seen[k]:
                        self.seen[k].append(mid)
            elif ty == 6:
                mid = b[i] * 256 + b[i + 1]
                if mid not in self.seen["PUBCOMP"]:
                    self.seen["PUBCOMP"].append(mid)
            elif ty == 8:
                self.seen["SUBACK"].append(b[i] * 256 + b[i + 1])
            elif ty == 10:
                self.seen["UNSUBACK"].append(b[i] * 256 + b[i + 1])


def step(w, a, loc, st):
    op = st[0]
    if op == "build":
        ln = w.build(a)
    elif op == "set":
        ln = w.set(a, st[1], st[2])
    elif op == "connect":
        ln = w.connect(a, clientId="c-" + a, keepalive=0, cleanStart=st[1])
    elif op == "connack":
        ln = w.recv(a, W.connack(0, 0))
    elif op == "publish":
        ln = w.publish(a, "t/" + a, st[2], st[1])
    elif op == "subscribe":
        ln = w.subscribe(a, [("s/" + a, 1)])
    elif op == "unsubscribe":
        ln = w.unsubscribe(a, ["s/" + a])
    elif op == "ack":
        lst = loc.seen[st[1]]
        mid = lst[st[2] % len(lst)] if lst else 60000
        ln = w.recv(a, W.suback(mid, [1]) if st[1] == "SUBACK" else W.ack(st[1], mid))
    elif op == "inbound":
        ln = w.recv(a, W.publish("in/" + a, b"x", st[1], st[2]))
    elif op == "pubrel":
        ln = w.recv(a, W.ack("PUBREL", st[1]))
    elif op == "lost":
        ln = w.lost(a, "done")
    elif op == "disconnect":
        ln = w.disconnect(a)
    loc.observe(ln, a)


def finish(w):
    """let every timer due within a fixed horizon run, in deadline order (the same horizon alone and interleaved, so that
    the projection on an address is the same)"""
    k = 0
    while W.clock.calls and k < 400:
        c = W.clock.pending()[0]
        if c.at > 30000:
            break
        w.fire(c); k += 1


def own_of(line):
    for e in line["fx"]:
        if "c" in e:
            return e["c"][0]
        if "a" in e:
            return e["a"]
    return ""


class Rec(object):
    def __init__(self, out):
        self.out = out; self.idx = []; self.line = 0
    def world(self, prof, meta):
        return W.World(prof, len(self.idx) + 1, None, meta=meta)
    def done(self, w):
        for ln in w.lines:
            if ln["stim"]["op"] == "fire":
                ln["stim"]["own"] = own_of(ln)
            self.out.write(json.dumps(ln, separators=(",", ":")) + "\n")
        self.idx.append([self.line + 1, self.line + w.n]); self.line += w.n
        return len(self.idx)


def run_solo(rec, prof, a, script):
    w = rec.world(prof, {"solo": {}, "kind": "solo"})
    loc = Local()
    for st in script:
        step(w, a, loc, st)
    finish(w)
    return rec.done(w)


def run_joint(rec, prof, sa, sb, order, ta, tb):
    w = rec.world(prof, {"solo": {"A": ta, "B": tb}, "kind": "joint"})
    la, lb = Local(), Local(); ia = ib = 0
    for x in order:
        if x == "A":
            step(w, "A", la, sa[ia]); ia += 1
        else:
            step(w, "B", lb, sb[ib]); ib += 1
    finish(w)
    return rec.done(w)


def main():
    outdir, tier, seed = sys.argv[1], sys.argv[2], int(sys.argv[3])
    os.makedirs(outdir, exist_ok=True)
    rnd = random.Random(seed)
    rec = Rec(open(os.path.join(outdir, "all.ndjson"), "w"))
    npairs = 60 if tier == "quick" else 1500
    joint = 0
    for k in range(npairs):
        prof = rnd.choice(["pub", "sub", "both", "both"])
        short = k % 5 == 0
        sa = gen_script(rnd, prof, rnd.randint(1, 2) if short else rnd.randint(4, 14))
        sb = gen_script(rnd, prof, rnd.randint(1, 2) if short else rnd.randint(4, 14))
        ta = run_solo(rec, prof, "A", sa); tb = run_solo(rec, prof, "B", sb)
        orders = []
        if len(sa) + len(sb) <= 12:
            for pos in itertools.combinations(range(len(sa) + len(sb)), len(sa)):
                o = ["B"] * (len(sa) + len(sb))
                for p in pos:
                    o[p] = "A"
                orders.append(o)
            rnd.shuffle(orders); orders = orders[: (40 if tier == "quick" else 924)]
        else:
            for _ in range(3 if tier == "quick" else 10):
                o = ["A"] * len(sa) + ["B"] * len(sb); rnd.shuffle(o); orders.append(o)
            orders.append(["A"] * len(sa) + ["B"] * len(sb)); orders.append(["B"] * len(sb) + ["A"] * len(sa))
        for o in orders:
            run_joint(rec, prof, sa, sb, o, ta, tb); joint += 1
    rec.out.close()
    json.dump(rec.idx, open(os.path.join(outdir, "all.idx.json"), "w"))
    print(json.dumps({"traces": len(rec.idx), "joint": joint, "lines": rec.line}))


if __name__ == "__main__":
    main()
