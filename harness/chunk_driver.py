"""C03 driver: the same broker byte stream delivered to identically prepared clients in different chunkings.

For every stream: one reference trace (one packet per chunk) and many chunked traces; every line of a chunked trace
carries meta = {"ref": <trace number of the reference>, "p0": <number of preparation lines>}.
usage: chunk_driver.py <outdir> <tier> <seed>     -> <outdir>/all.ndjson, all.idx.json
"""
import sys, json, random, os, itertools
import world as W


def prep(w, scenario):
    """bring a pub/sub client to a state in which every packet of the scenario's stream has an effect"""
    a = "A"
    w.build(a)
    for h in ("onDisconnection", "onPublish", "onMqttConnectionMade"):
        w.set(a, h, 1)
    w.set(a, "window", 4)
    if scenario.get("connected", True):
        w.connect(a, keepalive=scenario.get("ka", 0), cleanStart=True, version=scenario.get("ver", 4))
        w.recv(a, W.connack(0, 0))
        for q in scenario.get("pubs", []):
            w.publish(a, "t/%d" % q, "m", q)
        for _ in range(scenario.get("subs", 0)):
            w.subscribe(a, [("s/a", 1), ("s/b", 2)])
        for _ in range(scenario.get("unsubs", 0)):
            w.unsubscribe(a, ["s/a"])
        for i in scenario.get("recs", []):
            w.recv(a, W.ack("PUBREC", i))
    else:
        w.connect(a, keepalive=0, cleanStart=True)
        w.publish(a, "t/1", "early", 1)


def scenarios():
    big = bytes(range(256)) * 64                       # 16384 bytes
    S = []
    # handshake + mixed acknowledgements; ids: publishes 1 (q1), 2 (q2), subscribe 3, unsubscribe 5 (unsubscribe burns an id)
    S.append(("handshake", dict(connected=False), [W.connack(0, 1), W.ack("PUBACK", 1), W.PINGRESP]))
    S.append(("acks", dict(pubs=[1, 2, 1], subs=1, unsubs=1),
              [W.ack("PUBACK", 1), W.ack("PUBREC", 2), W.suback(4, [1, 128]), W.ack("UNSUBACK", 6), W.ack("PUBCOMP", 2), W.ack("PUBACK", 3), W.PINGRESP]))
    S.append(("inbound-small", dict(),
              [W.publish("a/b", b"", 0), W.publish("a/b", b"x", 1, 7), W.publish("é/€", b"hello", 2, 8, 0, 1), W.ack("PUBREL", 8),
               W.publish("a", b"y", 2, 9, 1), W.publish("a", b"y", 2, 9, 1), W.ack("PUBREL", 9), W.ack("PUBREL", 9)]))
    # remaining lengths 127, 128, 129, 256 (topic "t": 3 bytes of variable header at QoS 0, 5 at QoS 1)
    S.append(("inbound-127-128", dict(), [W.publish("t", b"\xa5" * 124, 0), W.publish("t", b"\xa5" * 125, 0), W.publish("t", b"z" * 124, 1, 300),
                                          W.publish("t", b"y" * 253, 0), W.PINGRESP]))
    S.append(("dup-acks", dict(pubs=[1, 1]), [W.ack("PUBACK", 2), W.ack("PUBACK", 2), W.ack("PUBACK", 9), W.ack("PUBACK", 1)]))
    S.append(("release", dict(pubs=[2, 2], recs=[1]), [W.ack("PUBCOMP", 1), W.ack("PUBREC", 2), W.ack("PUBREC", 2), W.ack("PUBCOMP", 2)]))
    S.append(("inbound-16383-16384", dict(), [W.publish("t", big[:16380], 0), W.publish("t", big[:16379], 1, 2), W.ack("PUBREL", 1), W.PINGRESP]))
    S.append(("inbound-long", dict(), [W.publish("long/topic", big + big[:4000], 2, 77), W.ack("PUBREL", 77), W.publish("q", b"tail", 0)]))
    S.append(("keepalive", dict(ka=5), [W.PINGRESP, W.publish("k", b"v", 1, 1), W.PINGRESP]))
    S.append(("malformed-last", dict(pubs=[1]), [W.ack("PUBACK", 1), W.publish("a", b"ok", 0), bytes([0x30, 0x03, 0x00, 0x09, 0x61])]))
    return S


def compositions(n):
    """all compositions of n as lists of chunk lengths"""
    for mask in range(1 << (n - 1)):
        out = []; run = 1
        for i in range(n - 1):
            if mask >> i & 1:
                out.append(run); run = 1
            else:
                run += 1
        out.append(run)
        yield out


def cuts_to_lengths(n, cuts):
    cuts = sorted(set(c for c in cuts if 0 < c < n))
    pts = [0] + cuts + [n]
    return [pts[i + 1] - pts[i] for i in range(len(pts) - 1)]


def chunkings(stream, pkts, tier, rnd):
    n = len(stream)
    seen = set()
    def emit(ls):
        t = tuple(ls)
        if t not in seen and sum(t) == n:
            seen.add(t); return True
        return False
    limit_all = 12 if tier == "quick" else 13
    if n <= limit_all:
        for c in compositions(n):
            if emit(c):
                yield c
        return
    if n <= 300:
        if emit([1] * n):
            yield [1] * n                               # byte at a time
    bounds = []; pos = 0
    for p in pkts:
        pos += len(p); bounds.append(pos)
    # interesting cut positions: around every packet boundary and inside every fixed header / length field
    pts = set()
    start = 0
    for b in bounds:
        for d in range(0, 7):
            pts.add(start + d)
        for d in (-2, -1, 0, 1):
            pts.add(b + d)
        start = b
    pts = sorted(p for p in pts if 0 < p < n)
    if n > 20000:
        pts = pts[:24] if tier == "thorough" else pts[:10]
    for c in pts:                                       # every 1-cut placement at the interesting positions
        if emit(cuts_to_lengths(n, [c])):
            yield cuts_to_lengths(n, [c])
    if n <= 80:
        for c in range(1, n):
            if emit(cuts_to_lengths(n, [c])):
                yield cuts_to_lengths(n, [c])
    pairs = list(itertools.combinations(pts, 2))
    rnd.shuffle(pairs)
    for pr in pairs[: ((60 if n < 3000 else 12) if tier == "quick" else (400 if n < 3000 else 40))]:
        if emit(cuts_to_lengths(n, pr)):
            yield cuts_to_lengths(n, pr)
    if n <= 80:
        trip = list(itertools.combinations(range(1, n), 3)); rnd.shuffle(trip)
        for tr in trip[: (100 if tier == "quick" else 1500)]:
            if emit(cuts_to_lengths(n, tr)):
                yield cuts_to_lengths(n, tr)
    # several packets in one chunk
    for k in range(1, len(bounds)):
        if emit(cuts_to_lengths(n, bounds[k - 1:k])):
            yield cuts_to_lengths(n, bounds[k - 1:k])
    if emit([n]):
        yield [n]
    for _ in range((30 if n < 3000 else 6) if tier == "quick" else (300 if n < 3000 else 30)):
        k = rnd.randint(1, min(8, n - 1))
        cs = rnd.sample(range(1, n), k)
        if n > 3000:
            cs = [rnd.choice(pts) for _ in range(min(k, 3))] + [rnd.randrange(1, n)]
        if emit(cuts_to_lengths(n, cs)):
            yield cuts_to_lengths(n, cs)


def main():
    outdir, tier, seed = sys.argv[1], sys.argv[2], int(sys.argv[3])
    os.makedirs(outdir, exist_ok=True)
    rnd = random.Random(seed)
    out = open(os.path.join(outdir, "all.ndjson"), "w")
    idx = []; line = 0; tid = 0; stats = {}
    for name, scn, pkts in scenarios():
        stream = b"".join(pkts)
        tid += 1; ref = tid
        w = W.World("both", tid, out, meta={"ref": 0, "p0": 0, "stream": name})
        prep(w, scn); p0 = w.n
        for ln in w.lines:
            pass
        for p in pkts:
            w.recv("A", p)
        idx.append([line + 1, line + w.n]); line += w.n
        k = 0
        for ls in chunkings(stream, pkts, tier, rnd):
            tid += 1; k += 1
            w = W.World("both", tid, out, meta={"ref": ref, "p0": p0, "stream": name})
            prep(w, scn)
            pos = 0
            for l in ls:
                w.recv("A", stream[pos:pos + l]); pos += l
            idx.append([line + 1, line + w.n]); line += w.n
        stats[name] = [len(stream), k]
    out.close()
    json.dump(idx, open(os.path.join(outdir, "all.idx.json"), "w"))
    print(json.dumps({"traces": len(idx), "lines": line, "streams": stats}))


if __name__ == "__main__":
    main()
