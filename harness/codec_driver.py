"""Driver for C01 / C02: calls the real encode()/decode() of /repo/src/mqtt/pdu.py and records what they do.

No expected values live here: every record is judged by spec/trace/TraceCodec.tla against spec/MqttCodec.tla.
Output: NDJSON, one record per line.
  {"id", "op": "pkt", "t", "fin": {...fields...}, "ill": [names of ill-typed fields], "big": 0|N,
   "enc": {"k": "bytes", "b1": [...], "b2": [...], "tail_ok": 1} | {"k": "raise", "exc": "ValueError"|"TypeError"|other},
   "dec": {"k": "fields", ...} | {"k": "raise", "exc"} | {"k": "none"}}
  {"id", "op": "wire", "ver", "bytes": [...], "dec": {...}}           broker-format bytes -> decode()
  {"id", "op": "int16" | "len" | "str", "ins": [...], "encs": [...], "decs": [...]}   primitive codecs, batched
"""
import sys, json, random, os
sys.path.insert(0, __import__('os').environ.get('MQTT_SRC', '/repo/src'))
from mqtt import pdu, v31, v311

BIG = 4096          # payloads above this size are reported as (head bytes, length, slice comparison)
CLS = {n: getattr(pdu, n) for n in ["CONNECT", "CONNACK", "PUBLISH", "PUBACK", "PUBREC", "PUBREL", "PUBCOMP",
                                     "SUBSCRIBE", "SUBACK", "UNSUBSCRIBE", "UNSUBACK", "PINGREQ", "DISCONNECT"]}
CLS["PINGRESP"] = pdu.PINGRES


def cps(s):
    return [ord(c) for c in s]


def excname(e):
    for base in (ValueError, TypeError):
        if isinstance(e, base):
            return base.__name__
    return type(e).__name__


# ---------------------------------------------------------------- applying a field assignment to a PDU object
def make(t, f):
    """f: python-level field values (may be ill-typed on purpose)"""
    o = CLS[t]()
    if t == "CONNECT":
        o.version = v31 if f["ver"] == 3 else v311
        o.cleanStart = bool(f["clean"]); o.keepalive = f["ka"]; o.clientId = f["cid"]
        o.willTopic = f["wtopic"] if f["will"] else None
        o.willMessage = f["wmsg"] if f["will"] else None
        o.willQoS = f["wqos"]; o.willRetain = bool(f["wretain"])
        o.username = f["uname"] if f["user"] else None
        o.password = f["pwd"] if f["pass"] else None
    elif t == "CONNACK":
        o.session = bool(f["session"]); o.resultCode = f["code"]
    elif t == "PUBLISH":
        o.qos = f["qos"]; o.dup = bool(f["dup"]); o.retain = bool(f["retain"]); o.topic = f["topic"]
        o.msgId = f["id"]; o.payload = f["payload"]
    elif t in ("PUBACK", "PUBREC", "PUBCOMP", "UNSUBACK"):
        o.msgId = f["id"]
    elif t == "PUBREL":
        o.msgId = f["id"]; o.dup = bool(f.get("dup", 0))
    elif t == "SUBSCRIBE":
        o.msgId = f["id"]; o.topics = f["topics"]
    elif t == "UNSUBSCRIBE":
        o.msgId = f["id"]; o.topics = f["topics"]
    elif t == "SUBACK":
        o.msgId = f["id"]; o.granted = f["granted"]
    return o


def ival(x):
    return int(x) if isinstance(x, (int, bool)) else 0


def tval(x):
    return cps(x) if isinstance(x, str) else []


def describe(t, f):
    """JSON description of the input fields (what was asked), ill-typed ones named in 'ill'"""
    ill = []
    def I(name, x):
        if not isinstance(x, int) or isinstance(x, bool):
            ill.append(name); return 0
        return x
    def T(name, x):
        if not isinstance(x, str):
            ill.append(name); return []
        return cps(x)
    d = {}
    if t == "CONNECT":
        d = dict(ver=f["ver"], clean=ival(f["clean"]), ka=I("ka", f["ka"]), cid=T("cid", f["cid"]), will=ival(f["will"]),
                 wtopic=T("wtopic", f["wtopic"]) if f["will"] else [], wmsg=T("wmsg", f["wmsg"]) if f["will"] else [],
                 wqos=I("wqos", f["wqos"]), wretain=ival(f["wretain"]), user=ival(f["user"]),
                 uname=T("uname", f["uname"]) if f["user"] else [], **{"pass": ival(f["pass"])},
                 pwd=T("pwd", f["pwd"]) if f["pass"] else [])
    elif t == "CONNACK":
        d = dict(session=ival(f["session"]), code=I("code", f["code"]))
    elif t == "PUBLISH":
        p = f["payload"]
        if isinstance(p, str):
            kind, pv, n = "str", cps(p), len(p.encode("utf-8", "surrogatepass"))
        elif isinstance(p, bytearray):
            kind, pv, n = "bytes", list(p), len(p)
        else:
            kind, pv, n = "ill", [], 0; ill.append("payload")
        d = dict(dup=ival(f["dup"]), qos=I("qos", f["qos"]), retain=ival(f["retain"]), topic=T("topic", f["topic"]),
                 id=(I("id", f["id"]) if f["qos"] else -1), pkind=kind, payload=pv, plen=n)
    elif t in ("PUBACK", "PUBREC", "PUBCOMP", "UNSUBACK"):
        d = dict(id=I("id", f["id"]))
    elif t == "PUBREL":
        d = dict(id=I("id", f["id"]), dup=0)
    elif t == "SUBSCRIBE":
        d = dict(id=I("id", f["id"]), dup=0, topics=[[T("topics", a), I("topics", q)] for (a, q) in f["topics"]])
    elif t == "UNSUBSCRIBE":
        d = dict(id=I("id", f["id"]), dup=0, topics=[T("topics", a) for a in f["topics"]])
    elif t == "SUBACK":
        d = dict(id=I("id", f["id"]), granted=[[g[0], 1 if g[1] else 0] for g in f["granted"]])
    return d, sorted(set(ill))


def dump(t, o):
    """JSON description of a decoded PDU object (what the library reports)"""
    def T(x):
        return cps(x) if isinstance(x, str) else (list(x) if isinstance(x, (bytes, bytearray)) else [])
    if t == "CONNECT":
        will = 1 if o.willTopic is not None else 0
        return dict(ver=o.version["level"], clean=ival(o.cleanStart), ka=o.keepalive, cid=T(o.clientId), will=will,
                    wtopic=T(o.willTopic), wmsg=T(o.willMessage), wqos=ival(o.willQoS) if will else 0,
                    wretain=ival(o.willRetain) if will else 0, user=0 if o.username is None else 1, uname=T(o.username),
                    **{"pass": 0 if o.password is None else 1}, pwd=T(o.password),
                    pwd_is_bytes=1 if isinstance(o.password, (bytes, bytearray)) or o.password is None else 0)
    if t == "CONNACK":
        return dict(session=ival(o.session), code=o.resultCode)
    if t == "PUBLISH":
        return dict(dup=ival(o.dup), qos=o.qos, retain=ival(o.retain), topic=T(o.topic), id=-1 if o.msgId is None else o.msgId,
                    payload=list(o.payload) if isinstance(o.payload, (bytes, bytearray)) else [],
                    payload_is_bytes=1 if isinstance(o.payload, (bytes, bytearray)) else 0)
    if t in ("PUBACK", "PUBREC", "PUBCOMP", "UNSUBACK"):
        return dict(id=o.msgId)
    if t == "PUBREL":
        return dict(id=o.msgId, dup=ival(o.dup))
    if t == "SUBSCRIBE":
        return dict(id=o.msgId, dup=(o.encoded[0] >> 3) & 1, topics=[[T(a), q] for (a, q) in o.topics])
    if t == "UNSUBSCRIBE":
        return dict(id=o.msgId, dup=(o.encoded[0] >> 3) & 1, topics=[T(a) for a in o.topics])
    if t == "SUBACK":
        return dict(id=o.msgId, granted=[[g[0], 1 if g[1] else 0] for g in o.granted])
    return {}


class Out:
    def __init__(self, path):
        self.f = open(path, "w"); self.n = 0
    def rec(self, r):
        self.n += 1; r["id"] = self.n
        self.f.write(json.dumps(r, separators=(",", ":")) + "\n")
    def close(self):
        self.f.close()


def run_pkt(out, t, f):
    fin, ill = describe(t, f)
    r = {"op": "pkt", "t": t, "fin": fin, "ill": ill, "big": 0}
    big = t == "PUBLISH" and not ill and fin["plen"] > BIG
    try:
        b1 = make(t, f).encode()
        o2 = make(t, f); o2.encode(); b2 = o2.encode()           # second object, encoded twice
    except Exception as e:
        r["enc"] = {"k": "raise", "exc": excname(e)}; r["dec"] = {"k": "none"}
        if big:
            r["big"] = fin["plen"]; fin["payload"] = []
        out.rec(r); return
    b1 = bytes(b1); b2 = bytes(b2)
    if big:
        n = fin["plen"]; raw = f["payload"].encode("utf-8") if isinstance(f["payload"], str) else bytes(f["payload"])
        r["big"] = n; fin["payload"] = []
        r["enc"] = {"k": "bytes", "b1": list(b1[:len(b1) - n]), "b2": list(b2[:len(b2) - n]), "total": len(b1),
                    "tail_ok": 1 if (b1[len(b1) - n:] == raw and b2 == b1) else 0}
    else:
        r["enc"] = {"k": "bytes", "b1": list(b1), "b2": list(b2), "total": len(b1), "tail_ok": 1}
    try:
        o = CLS[t](); o.decode(bytearray(b1)); d = dump(t, o)
        if big:
            raw = f["payload"].encode("utf-8") if isinstance(f["payload"], str) else bytes(f["payload"])
            d["payload_ok"] = 1 if bytes(o.payload) == raw else 0; d["payload"] = []
        else:
            d["payload_ok"] = 1
        d["k"] = "fields"; r["dec"] = d
    except Exception as e:
        r["dec"] = {"k": "raise", "exc": excname(e)}
    out.rec(r)


def run_wire(out, t, b, ver=4):
    r = {"op": "wire", "t": t, "ver": ver, "bytes": list(b)}
    try:
        o = CLS[t](); o.decode(bytearray(b)); d = dump(t, o); d["k"] = "fields"; r["dec"] = d
    except Exception as e:
        r["dec"] = {"k": "raise", "exc": excname(e)}
    out.rec(r)


def run_prims(out, kind, ins):
    encs, decs = [], []
    for x in ins:
        try:
            if kind == "int16":
                e = pdu.encode16Int(x); d = pdu.decode16Int(e)
            elif kind == "len":
                e = pdu.encodeLength(x); d = pdu.decodeLength(e)
            else:
                e = pdu.encodeString("".join(map(chr, x))); s, rest = pdu.decodeString(e + bytearray(b"zz"))
                d = cps(s) + [-1] * (0 if rest == bytearray(b"zz") else 1)
            encs.append(list(e)); decs.append(d)
        except Exception as ex:
            encs.append([]); decs.append(-2 if kind != "str" else [-2]);
    out.rec({"op": kind, "ins": [list(x) if kind == "str" else x for x in ins], "encs": encs, "decs": decs})


# ---------------------------------------------------------------- input families
CP1, CP2, CP3, CP4 = 0x41, 0xE9, 0x20AC, 0x1F600
IDS = [0, 1, 127, 128, 255, 256, 32767, 32768, 65534, 65535]
STRLENS = [0, 1, 127, 128, 16383, 16384, 65535]


def text_of(nbytes, cp):
    """a text of exactly nbytes UTF-8 bytes made of code point cp, padded with 'a'"""
    w = len(chr(cp).encode("utf-8"))
    return chr(cp) * (nbytes // w) + "a" * (nbytes % w)


def base_fields(t):
    return {
        "CONNECT": dict(ver=4, clean=1, ka=60, cid="client", will=0, wtopic=None, wmsg=None, wqos=0, wretain=0, user=0, uname=None, **{"pass": 0}, pwd=None),
        "CONNACK": dict(session=0, code=0),
        "PUBLISH": dict(qos=1, dup=0, retain=0, topic="a/b", id=10, payload="hello"),
        "PUBACK": dict(id=10), "PUBREC": dict(id=10), "PUBREL": dict(id=10), "PUBCOMP": dict(id=10), "UNSUBACK": dict(id=10),
        "SUBSCRIBE": dict(id=10, topics=[("a/b", 1)]), "UNSUBSCRIBE": dict(id=10, topics=["a/b"]),
        "SUBACK": dict(id=10, granted=[(1, False)]), "PINGREQ": {}, "PINGRESP": {}, "DISCONNECT": {},
    }[t]


def fam_flags_ids(out, thorough):
    """all flag combinations crossed with all identifier boundaries"""
    for ver in (3, 4):
        for clean in (0, 1):
            for will in (0, 1):
                for wq in ((0, 1, 2) if will else (0,)):
                    for wr in ((0, 1) if will else (0,)):
                        for user, pw in ((0, 0), (1, 0), (1, 1)):
                            for ka in (IDS if (thorough or (clean and not will)) else (0, 65535)):
                                f = dict(base_fields("CONNECT"), ver=ver, clean=clean, ka=ka, will=will, wtopic="w/t" if will else None,
                                         wmsg="bye" if will else None, wqos=wq, wretain=wr, user=user, uname="user" if user else None,
                                         **{"pass": pw}, pwd="secret" if pw else None)
                                run_pkt(out, "CONNECT", f)
    for dup in (0, 1):
        for qos in (0, 1, 2):
            if qos == 0 and dup:
                continue
            for retain in (0, 1):
                for i in IDS:
                    for pl in ("", "x", bytearray(b"\x00\xff")):
                        run_pkt(out, "PUBLISH", dict(qos=qos, dup=dup, retain=retain, topic="t", id=i, payload=pl))
    for t in ("PUBACK", "PUBREC", "PUBREL", "PUBCOMP", "UNSUBACK"):
        for i in IDS:
            run_pkt(out, t, dict(id=i))
    for i in IDS:
        run_pkt(out, "SUBSCRIBE", dict(id=i, topics=[("a", 0), ("b/#", 1), ("+/c", 2)]))
        run_pkt(out, "UNSUBSCRIBE", dict(id=i, topics=["a", "b/#"]))
        run_pkt(out, "SUBACK", dict(id=i, granted=[(0, False), (1, False), (2, False), (0, True)]))
    for s in (0, 1):
        for c in (range(256) if thorough else (0, 1, 2, 3, 4, 5, 6, 127, 128, 255)):
            run_pkt(out, "CONNACK", dict(session=s, code=c))
    for t in ("PINGREQ", "PINGRESP", "DISCONNECT"):
        run_pkt(out, t, {})


def fam_strings(out, thorough):
    """each string field at each byte-length class, built from 1/2/3/4-byte code points"""
    lens = STRLENS if thorough else [0, 1, 127, 128, 16383, 16384, 65535]
    for cp in (CP1, CP2, CP3, CP4):
        for n in lens:
            if n >= 16383 and not thorough and cp not in (CP1, CP3):
                continue
            s = text_of(n, cp)
            run_pkt(out, "PUBLISH", dict(qos=1, dup=0, retain=0, topic=s, id=1, payload=""))
            if n < 16383 or thorough or cp == CP3:
                run_pkt(out, "CONNECT", dict(base_fields("CONNECT"), cid=s))
                run_pkt(out, "CONNECT", dict(base_fields("CONNECT"), will=1, wtopic=s, wmsg="m"))
                run_pkt(out, "CONNECT", dict(base_fields("CONNECT"), will=1, wtopic="t", wmsg=s))
                run_pkt(out, "CONNECT", dict(base_fields("CONNECT"), user=1, uname=s))
                run_pkt(out, "CONNECT", dict(base_fields("CONNECT"), user=1, uname="u", **{"pass": 1}, pwd=s))
                run_pkt(out, "SUBSCRIBE", dict(id=2, topics=[(s, 1)]))
                run_pkt(out, "UNSUBSCRIBE", dict(id=2, topics=[s]))
    # mixed-width texts
    # (U+FEFF is a character like any other, also in front: [MQTT-1.5.3-3]; U+FFFD and the last code points of each width)
    for s in ("aé€😀", "😀😀", "é" * 63 + "a", "€" * 42 + "ab", "߿ࠀ￿\U00010000\U0010ffff", "\u007f\u0080",
              "\ufeffsensors/t1", "\ufeff", "a\ufeffb\ufeff", "\ufffd/\ufeff\ufeff", "\u07ff\uffff\U0010ffff"):
        run_pkt(out, "PUBLISH", dict(qos=0, dup=0, retain=0, topic=s, id=None, payload=s))
        run_pkt(out, "CONNECT", dict(base_fields("CONNECT"), cid=s, will=1, wtopic=s, wmsg=s, user=1, uname=s, **{"pass": 1}, pwd=s))
        run_pkt(out, "SUBSCRIBE", dict(id=3, topics=[(s, 2), (s + "x", 0)]))
        run_pkt(out, "UNSUBSCRIBE", dict(id=3, topics=[s, s + "x"]))


def fam_remaining_length(out, thorough):
    """PUBLISH bodies that push the remaining length across every 1/2/3/4-byte boundary"""
    targets = [0, 1, 2, 126, 127, 128, 129, 16382, 16383, 16384, 16385]
    if thorough:
        targets += [2097150, 2097151, 2097152, 2097153]
    else:
        targets += [2097151, 2097152]
    for rl in targets:
        for qos, topic in ((0, "t"), (1, "t")):
            vh = 2 + len(topic) + (2 if qos else 0)
            if rl < vh:
                if rl == 2 and qos == 0:
                    run_pkt(out, "PUBLISH", dict(qos=0, dup=0, retain=0, topic="", id=None, payload=""))
                continue
            n = rl - vh
            run_pkt(out, "PUBLISH", dict(qos=qos, dup=0, retain=1, topic=topic, id=300, payload=bytearray(b"\xa5") * n))
            if n <= 20000 or thorough:
                run_pkt(out, "PUBLISH", dict(qos=qos, dup=0, retain=0, topic=topic, id=300, payload="z" * n))
    # SUBSCRIBE / UNSUBSCRIBE / SUBACK with many entries: remaining length classes 1 and 2
    for k in (1, 2, 3, 4, 5, 9, 17, 60):
        run_pkt(out, "SUBSCRIBE", dict(id=k, topics=[("topic/%d" % j, j % 3) for j in range(k)]))
        run_pkt(out, "UNSUBSCRIBE", dict(id=k, topics=["topic/%d" % j for j in range(k)]))
        run_pkt(out, "SUBACK", dict(id=k, granted=[(j % 3, j % 5 == 0) if j % 5 else (0, True) for j in range(k)]))
    run_pkt(out, "SUBACK", dict(id=7, granted=[(j % 3, False) for j in range(200)]))


def fam_unrepresentable(out, thorough):
    long1, long2 = "a" * 65536, "€" * 23334          # 65536 and 70002 bytes
    for s in (long1, long2):
        run_pkt(out, "PUBLISH", dict(qos=1, dup=0, retain=0, topic=s, id=1, payload=""))
        run_pkt(out, "CONNECT", dict(base_fields("CONNECT"), cid=s))
        run_pkt(out, "CONNECT", dict(base_fields("CONNECT"), will=1, wtopic=s, wmsg="m"))
        run_pkt(out, "CONNECT", dict(base_fields("CONNECT"), will=1, wtopic="t", wmsg=s))
        run_pkt(out, "CONNECT", dict(base_fields("CONNECT"), user=1, uname=s))
        run_pkt(out, "CONNECT", dict(base_fields("CONNECT"), user=1, uname="u", **{"pass": 1}, pwd=s))
        run_pkt(out, "SUBSCRIBE", dict(id=2, topics=[("ok", 0), (s, 1)]))
        run_pkt(out, "UNSUBSCRIBE", dict(id=2, topics=[s]))
    for bad in (-1, 65536, 70000, None):
        run_pkt(out, "PUBLISH", dict(qos=1, dup=0, retain=0, topic="t", id=bad, payload="x"))
        run_pkt(out, "PUBLISH", dict(qos=2, dup=0, retain=0, topic="t", id=bad, payload="x"))
        for t in ("PUBACK", "PUBREC", "PUBREL", "PUBCOMP", "UNSUBACK"):
            run_pkt(out, t, dict(id=bad))
        run_pkt(out, "SUBSCRIBE", dict(id=bad, topics=[("a", 0)]))
        run_pkt(out, "UNSUBSCRIBE", dict(id=bad, topics=["a"]))
        run_pkt(out, "CONNECT", dict(base_fields("CONNECT"), ka=bad))
    for pl in (5, 1.5, None, b"bytes", ["l"], True):
        for qos in (0, 1):
            run_pkt(out, "PUBLISH", dict(qos=qos, dup=0, retain=0, topic="t", id=1, payload=pl))


def fam_random(out, n, seed):
    """hypothesis-generated field assignments over the whole Unicode range"""
    from hypothesis import given, settings, strategies as st, HealthCheck, seed as hseed
    txt = st.text(max_size=40)
    ident = st.one_of(st.sampled_from(IDS), st.integers(0, 65535))
    bit = st.integers(0, 1)
    payload = st.one_of(txt, st.binary(max_size=300).map(bytearray), st.text(max_size=3000))
    strat = st.one_of(
        st.fixed_dictionaries(dict(ver=st.sampled_from([3, 4]), clean=bit, ka=ident, cid=txt, will=bit, wtopic=txt, wmsg=txt,
                                   wqos=st.integers(0, 2), wretain=bit, user=st.just(1), uname=txt, pwd=txt, **{"pass": bit})).map(lambda f: ("CONNECT", f)),
        st.fixed_dictionaries(dict(ver=st.sampled_from([3, 4]), clean=bit, ka=ident, cid=txt, will=bit, wtopic=txt, wmsg=txt,
                                   wqos=st.integers(0, 2), wretain=bit, user=st.just(0), uname=st.none(), pwd=st.none(), **{"pass": st.just(0)})).map(lambda f: ("CONNECT", f)),
        st.fixed_dictionaries(dict(qos=st.integers(1, 2), dup=bit, retain=bit, topic=txt, id=ident, payload=payload)).map(lambda f: ("PUBLISH", f)),
        st.fixed_dictionaries(dict(qos=st.just(0), dup=st.just(0), retain=bit, topic=txt, id=st.none(), payload=payload)).map(lambda f: ("PUBLISH", f)),
        st.fixed_dictionaries(dict(id=ident, topics=st.lists(st.tuples(txt, st.integers(0, 2)), min_size=1, max_size=6))).map(lambda f: ("SUBSCRIBE", f)),
        st.fixed_dictionaries(dict(id=ident, topics=st.lists(txt, min_size=1, max_size=6))).map(lambda f: ("UNSUBSCRIBE", f)),
        st.fixed_dictionaries(dict(id=ident, granted=st.lists(st.sampled_from([(0, False), (1, False), (2, False), (0, True)]), min_size=1, max_size=8))).map(lambda f: ("SUBACK", f)),
        st.fixed_dictionaries(dict(id=ident)).flatmap(lambda f: st.sampled_from(["PUBACK", "PUBREC", "PUBREL", "PUBCOMP", "UNSUBACK"]).map(lambda t: (t, f))),
        st.fixed_dictionaries(dict(session=bit, code=st.integers(0, 255))).map(lambda f: ("CONNACK", f)),
    )

    @hseed(seed)
    @settings(max_examples=n, deadline=None, database=None, suppress_health_check=list(HealthCheck))
    @given(strat)
    def go(tf):
        t, f = tf
        if t == "CONNECT" and not f["will"]:
            f = dict(f, wtopic=None, wmsg=None, wqos=0, wretain=0)
        run_pkt(out, t, f)
    go()


def enc_len(n):
    o = bytearray()
    while True:
        d = n % 128; n //= 128
        o.append(d | (128 if n else 0))
        if not n:
            return bytes(o)


def fam_wire(out, thorough, seed):
    """broker-format packets handed to the real decode(); the builder below is a driver utility,
    what it produces is judged by the reference decoder (only strictly well-formed inputs count)"""
    rnd = random.Random(seed)
    def frame(first, body):
        return bytes([first]) + enc_len(len(body)) + bytes(body)
    def s(x):
        e = x.encode("utf-8"); return bytes([len(e) >> 8, len(e) & 255]) + e
    def i16(n):
        return bytes([n >> 8, n & 255])
    topics = ["", "a", "a/b", "é/€/😀", "x" * 127, "y" * 128, "€" * 100]
    for sess in (0, 1):
        for code in (0, 1, 2, 3, 4, 5, 6, 255):
            run_wire(out, "CONNACK", frame(0x20, bytes([sess, code])))
    for tp in topics:
        for qos in (0, 1, 2):
            for dup in ((0,) if qos == 0 else (0, 1)):
                for retain in (0, 1):
                    for pl in (b"", b"p", bytes(range(256)), b"\xff" * (130 - len(s(tp)))):
                        for i in (1, 256, 65535):
                            body = s(tp) + (i16(i) if qos else b"") + pl
                            run_wire(out, "PUBLISH", frame(0x30 | dup << 3 | qos << 1 | retain, body))
                            if qos == 0:
                                break
    for t, first in (("PUBACK", 0x40), ("PUBREC", 0x50), ("PUBREL", 0x62), ("PUBCOMP", 0x70), ("UNSUBACK", 0xB0)):
        for i in IDS:
            run_wire(out, t, frame(first, i16(i)))
    run_wire(out, "PUBREL", frame(0x6A, i16(9)), ver=3)
    for i in IDS:
        for g in ([0], [1], [2], [128], [0, 1, 2, 128], [2] * 130):
            run_wire(out, "SUBACK", frame(0x90, i16(i) + bytes(g)))
    run_wire(out, "PINGRESP", frame(0xD0, b""))
    # the client's own packet types are decodable too (the library implements decode for all of them)
    for i in (1, 65535):
        run_wire(out, "SUBSCRIBE", frame(0x82, i16(i) + s("a/b") + b"\x01" + s("é") + b"\x02"))
        run_wire(out, "UNSUBSCRIBE", frame(0xA2, i16(i) + s("a/b") + s("€")))
    for ver, name in ((3, "MQIsdp"), (4, "MQTT")):
        for fl, tail in ((0x02, b""), (0x00, b""), (0x2E, s("w") + s("m")), (0x0C, s("w/t") + s("")), (0x82, s("user")), (0xC2, s("user") + s("pw€")),
                         (0xF6, s("wt") + s("wm") + s("u") + s("p"))):
            for ka in (0, 60, 65535):
                run_wire(out, "CONNECT", frame(0x10, s(name) + bytes([ver, fl]) + i16(ka) + s("cid") + tail), ver=ver)
    n = 3000 if thorough else 300
    for _ in range(n):
        tp = "".join(rnd.choice("ab/é€😀+#") for _ in range(rnd.randint(0, 12)))
        qos = rnd.randint(0, 2); dup = rnd.randint(0, 1) if qos else 0
        body = s(tp) + (i16(rnd.randint(0, 65535)) if qos else b"") + bytes(rnd.randrange(256) for _ in range(rnd.choice([0, 1, 5, 120, 200])))
        run_wire(out, "PUBLISH", frame(0x30 | dup << 3 | qos << 1 | rnd.randint(0, 1), body))


def fam_prims(out, thorough):
    step = 1 if thorough else 1
    allv = list(range(0, 65536, step))
    for k in range(0, 65536, 4096):
        run_prims(out, "int16", allv[k:k + 4096])
    digits = [0, 1, 2, 63, 64, 126, 127]
    vals = set(range(0, 16600 if thorough else 600))
    for a in digits:
        for b in digits:
            for c in digits:
                for d in digits:
                    vals.add(a + 128 * b + 16384 * c + 2097152 * d)
    vals |= {127, 128, 16383, 16384, 2097151, 2097152, 268435455, 268435454}
    vals = sorted(vals)
    for k in range(0, len(vals), 2000):
        run_prims(out, "len", vals[k:k + 2000])
    strs = [cps(text_of(n, cp)) for cp in (CP1, CP2, CP3, CP4) for n in ([0, 1, 2, 3, 4, 127, 128, 300] + ([16383, 16384, 65535] if cp in (CP1, CP4) or thorough else []))]
    strs += [cps(x) for x in ("\u007f\u0080߿ࠀ￿\U00010000\U0010ffff", "aé€😀" * 50, "\ufeffabc", "\ufeff", "ab\ufeff", "\ufeff\ufeff")]
    for k in range(0, len(strs), 8):
        run_prims(out, "str", strs[k:k + 8])
    # over-long strings must be refused
    run_prims(out, "str", [cps("a" * 65536)])
    run_prims(out, "int16", [-1, 65536])


def main():
    path, tier, seed = sys.argv[1], sys.argv[2], int(sys.argv[3])
    thorough = tier == "thorough"
    out = Out(path)
    fam_flags_ids(out, thorough)
    fam_strings(out, thorough)
    fam_remaining_length(out, thorough)
    fam_unrepresentable(out, thorough)
    fam_wire(out, thorough, seed)
    fam_prims(out, thorough)
    fam_random(out, 20000 if thorough else 1500, seed)
    out.close()
    print(out.n)


if __name__ == "__main__":
    main()
